// G-CLOCK: vector clocks (child module of automerge::clock).
use super::*;

const N: usize = 3;

fn any_clock() -> Clock {
    let a: [u32; N] = kani::any();
    Clock(a.to_vec())
}

fn any_seq_entry() -> Option<NonZeroU32> {
    NonZeroU32::new(kani::any())
}

fn any_seqclock() -> SeqClock {
    SeqClock(vec![any_seq_entry(), any_seq_entry(), any_seq_entry()])
}

fn as_u32(x: Option<NonZeroU32>) -> u32 {
    match x {
        Some(v) => v.get(),
        None => 0,
    }
}

fn any_id_in_range() -> OpId {
    let actor: usize = kani::any();
    kani::assume(actor < N);
    let counter: u32 = kani::any();
    OpId::new(counter as u64, actor)
}

/// The visibility predicate of every historical read: covered iff the op's counter is at most
/// the clock entry of its actor (3 actors, all u32 entries, all ids over those actors).
#[kani::proof]
#[kani::unwind(5)]
fn clock_covers_is_counter_le_entry() {
    let c = any_clock();
    let id = any_id_in_range();
    let want = id.counter() <= c.0[id.actor()] as u64;
    assert_eq!(c.covers(&id), want);
    // monotone: raising an entry never hides an op
    let mut c2 = c.clone();
    let k: usize = kani::any();
    kani::assume(k < N);
    let bump: u32 = kani::any();
    kani::assume(bump >= c2.0[k]);
    c2.0[k] = bump;
    if c.covers(&id) {
        assert!(c2.covers(&id));
    }
    kani::cover!(want && id.counter() == c.0[id.actor()] as u64);
    kani::cover!(!want);
    std::mem::forget(c);
    std::mem::forget(c2);
}

/// isolate(actor) makes every op of that actor covered and leaves the other actors' view alone.
#[kani::proof]
#[kani::unwind(5)]
fn clock_isolate() {
    let mut c = any_clock();
    let before = [c.0[0], c.0[1], c.0[2]];
    let a: usize = kani::any();
    kani::assume(a < N);
    c.isolate(a);
    let id = any_id_in_range();
    if id.actor() == a {
        assert!(c.covers(&id));
    } else {
        assert_eq!(c.covers(&id), id.counter() <= before[id.actor()] as u64);
    }
    kani::cover!(id.actor() == a && id.counter() == u32::MAX as u64);
    kani::cover!(id.actor() != a);
    std::mem::forget(c);
}

/// ClockRange: Diff(before, after) reports visible_before by `before` and visible_after by
/// `after`; Current(None) sees everything and predates nothing; Current(Some(c)) is a read at c.
#[kani::proof]
#[kani::unwind(14)] // Vec<u32> == is a 12-byte memcmp
fn clock_range_visibility() {
    let b = any_clock();
    let a = any_clock();
    let id = any_id_in_range();
    let vb = id.counter() <= b.0[id.actor()] as u64;
    let va = id.counter() <= a.0[id.actor()] as u64;
    let d = ClockRange::Diff(b.clone(), a.clone());
    assert_eq!(d.visible_before(&id), vb);
    assert_eq!(d.predates(&id), vb);
    assert_eq!(d.visible_after(&id), va);
    assert!(d.after() == Some(&a));
    let cur = ClockRange::Current(Some(a.clone()));
    assert_eq!(cur.visible_after(&id), va);
    assert!(!cur.visible_before(&id));
    let now = ClockRange::current(None);
    assert!(now.visible_after(&id));
    assert!(!now.visible_before(&id));
    assert!(now.after().is_none());
    assert!(ClockRange::default() == ClockRange::Current(None));
    kani::cover!(vb && !va);
    kani::cover!(!vb && va);
    std::mem::forget((d, cur, now, a, b));
}

/// SeqClock::include is "raise this actor's entry to at least data": the entry becomes
/// max(old, data), other entries are untouched, and false means nothing changed.
#[kani::proof]
#[kani::unwind(5)]
fn seqclock_include_is_max() {
    let mut c = any_seqclock();
    let old = [as_u32(c.0[0]), as_u32(c.0[1]), as_u32(c.0[2])];
    let a: usize = kani::any();
    kani::assume(a < N);
    let data: Option<u32> = kani::any();
    let changed = c.include(a, data);
    let want = std::cmp::max(old[a], data.unwrap_or(0));
    assert_eq!(as_u32(c.0[a]), want);
    assert_eq!(as_u32(c.get_for_actor(&a)), want);
    let mut k = 0;
    while k < N {
        if k != a {
            assert_eq!(as_u32(c.0[k]), old[k]);
        }
        k += 1;
    }
    if !changed {
        assert_eq!(want, old[a]);
    }
    if want != old[a] {
        assert!(changed);
    }
    assert!(c.get_for_actor(&N).is_none());
    kani::cover!(changed && old[a] > 0);
    kani::cover!(!changed && data.is_some());
    std::mem::forget(c);
}

/// SeqClock::merge is the pointwise maximum (idempotent, commutative, an upper bound of both),
/// and covers is the pointwise order with None as bottom.
#[kani::proof]
#[kani::unwind(14)] // Vec<u32> == is a 12-byte memcmp
fn seqclock_merge_and_covers() {
    let a = any_seqclock();
    let b = any_seqclock();
    let mut ab = a.clone();
    SeqClock::merge(&mut ab, &b);
    let mut ba = b.clone();
    SeqClock::merge(&mut ba, &a);
    let mut all_ge = true;
    let mut k = 0;
    while k < N {
        let (x, y) = (as_u32(a.0[k]), as_u32(b.0[k]));
        assert_eq!(as_u32(ab.0[k]), std::cmp::max(x, y));
        assert_eq!(as_u32(ba.0[k]), as_u32(ab.0[k]));
        if x < y {
            all_ge = false;
        }
        k += 1;
    }
    assert_eq!(a.covers(&b), all_ge);
    assert!(ab.covers(&a));
    assert!(ab.covers(&b));
    let mut again = ab.clone();
    SeqClock::merge(&mut again, &b);
    assert!(again == ab);
    kani::cover!(all_ge && as_u32(b.0[0]) > 0);
    kani::cover!(!all_ge && !b.covers(&a));
    std::mem::forget((a, b, ab, ba, again));
}

/// Building a clock by inclusion does not depend on the order of the inclusions (3 inclusions,
/// two different orders), and equals the merge of the clocks of the parts.
#[kani::proof]
#[kani::unwind(14)] // Vec<u32> == is a 12-byte memcmp
fn seqclock_order_independent() {
    let acts: [usize; 3] = kani::any();
    kani::assume(acts[0] < N && acts[1] < N && acts[2] < N);
    let seqs: [Option<u32>; 3] = kani::any();
    let mut c1 = SeqClock::new(N);
    c1.include(acts[0], seqs[0]);
    c1.include(acts[1], seqs[1]);
    c1.include(acts[2], seqs[2]);
    let mut c2 = SeqClock::new(N);
    c2.include(acts[2], seqs[2]);
    c2.include(acts[0], seqs[0]);
    c2.include(acts[1], seqs[1]);
    assert!(c1 == c2);
    // merge of partial clocks = clock of the union
    let mut p = SeqClock::new(N);
    p.include(acts[0], seqs[0]);
    let mut q = SeqClock::new(N);
    q.include(acts[1], seqs[1]);
    q.include(acts[2], seqs[2]);
    SeqClock::merge(&mut p, &q);
    assert!(p == c1);
    kani::cover!(acts[0] == acts[1] && seqs[0] > seqs[1] && seqs[1].is_some());
    kani::cover!(acts[0] != acts[1] && acts[1] != acts[2] && acts[0] != acts[2]);
    std::mem::forget((c1, c2, p, q));
}

/// Actor-table renumbering of a SeqClock keeps every other actor's entry.
#[kani::proof]
#[kani::unwind(6)]
fn seqclock_rewrite_with_new_actor() {
    let mut c = any_seqclock();
    let old = [c.0[0], c.0[1], c.0[2]];
    let i: usize = kani::any();
    kani::assume(i <= N);
    c.rewrite_with_new_actor(i);
    assert_eq!(c.0.len(), N + 1);
    assert!(c.0[i].is_none());
    let mut k = 0;
    while k < N {
        let nk = if k >= i { k + 1 } else { k };
        assert!(c.0[nk] == old[k]);
        k += 1;
    }
    c.remove_actor(i);
    assert!(c.0.len() == N && c.0[0] == old[0] && c.0[1] == old[1] && c.0[2] == old[2]);
    kani::cover!(i == 0);
    kani::cover!(i == N);
    std::mem::forget(c);
}

/// Clock::from_iter maps a missing entry to 0 (= covers nothing of that actor but the root).
#[kani::proof]
#[kani::unwind(5)]
fn clock_from_iter() {
    let e: [Option<u32>; 3] = kani::any();
    let c: Clock = e.iter().copied().collect();
    assert_eq!(c.0.len(), 3);
    let mut k = 0;
    while k < 3 {
        assert_eq!(c.0[k], e[k].unwrap_or(0));
        k += 1;
    }
    kani::cover!(e[0].is_none() && e[1].is_some());
    std::mem::forget(c);
}
