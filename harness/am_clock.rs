// harnesses for automerge/src/clock.rs
