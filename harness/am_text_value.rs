// harnesses for automerge/src/text_value.rs
