// G-BLOOM: Bloom filter kernels (child module of automerge::sync::bloom).
use super::*;
use crate::storage::parse::Input;

fn any_hash() -> ChangeHash {
    ChangeHash(kani::any())
}

/// No false negatives, one entry: for every 256-bit hash h, from_hashes([h]).contains_hash(h).
#[kani::proof]
#[kani::unwind(9)]
fn bloom_no_false_negative_1() {
    let h = any_hash();
    let f = BloomFilter::from_hashes([h].iter());
    assert!(f.contains_hash(&h));
    assert_eq!(f.num_entries, 1);
    assert_eq!(f.bits.len(), 2);
    kani::cover!(f.bits[0] != 0 && f.bits[1] != 0);
    std::mem::forget(f);
}

/// No false negatives, two entries: both members are found whatever the two hashes are.
#[kani::proof]
#[kani::unwind(9)]
fn bloom_no_false_negative_2() {
    let h1 = any_hash();
    let h2 = any_hash();
    let f = BloomFilter::from_hashes([h1, h2].iter());
    assert!(f.contains_hash(&h1));
    assert!(f.contains_hash(&h2));
    assert_eq!(f.bits.len(), 3);
    kani::cover!(h1.0[0] != h2.0[0]);
    std::mem::forget(f);
}

/// Three entries (thorough).
#[kani::proof]
#[kani::unwind(9)]
fn bloom_no_false_negative_3() {
    let h1 = any_hash();
    let h2 = any_hash();
    let h3 = any_hash();
    let f = BloomFilter::from_hashes([h1, h2, h3].iter());
    assert!(f.contains_hash(&h1));
    assert!(f.contains_hash(&h2));
    assert!(f.contains_hash(&h3));
    assert_eq!(f.bits.len(), 4);
    kani::cover!(h1.0[0] != h2.0[0] && h2.0[4] != h3.0[4]);
    std::mem::forget(f);
}

/// Membership survives the wire: parse(to_bytes(f)) has the same parameters and bits and still
/// contains the member (1 entry, any hash).
#[kani::proof]
#[kani::unwind(9)]
fn bloom_wire_roundtrip_1() {
    let h = any_hash();
    let f = BloomFilter::from_hashes([h].iter());
    let bytes = f.to_bytes();
    assert_eq!(bytes.len(), 5);
    let r = BloomFilter::parse(Input::new(&bytes));
    match r {
        Ok((rest, g)) => {
            assert!(rest.is_empty());
            assert_eq!(g.num_entries, f.num_entries);
            assert_eq!(g.num_bits_per_entry, f.num_bits_per_entry);
            assert_eq!(g.num_probes, f.num_probes);
            assert_eq!(g.bits.len(), 2);
            assert_eq!(g.bits[0], f.bits[0]);
            assert_eq!(g.bits[1], f.bits[1]);
            assert!(g.contains_hash(&h));
            kani::cover!(true);
            std::mem::forget(g);
        }
        Err(_) => panic!("a filter we encoded must decode"),
    }
    std::mem::forget(f);
    std::mem::forget(bytes);
}

/// The empty filter encodes to nothing, decodes from nothing, and contains nothing.
#[kani::proof]
#[kani::unwind(4)]
fn bloom_empty_filter() {
    let f = BloomFilter::from_hashes(std::iter::empty::<ChangeHash>());
    let bytes = f.to_bytes();
    assert!(bytes.is_empty());
    let h = any_hash();
    assert!(!f.contains_hash(&h));
    match BloomFilter::parse(Input::new(&bytes)) {
        Ok((_, g)) => {
            assert_eq!(g.num_entries, 0);
            assert!(!g.contains_hash(&h));
            kani::cover!(true);
        }
        Err(_) => panic!("empty input is the empty filter"),
    }
}

/// contains_hash is a total function on every filter the decoder can produce: arbitrary wire
/// entry count and bits-per-entry consistent with a bit array of NB bytes, probe count P (one harness per (NB, P):
/// a symbolic probe count makes Vec::with_capacity a symbolic-size allocation, which CBMC does
/// not finish). No panic, no division by zero, every probe inside the bit array.
fn contains_total<const NB: usize, const P: u32>() {
    let num_entries: u32 = kani::any();
    let num_bits_per_entry: u32 = kani::any();
    let b: [u8; NB] = kani::any();
    // Representation invariant of every filter the crate can construct (the fields are private;
    // parse, from_hashes and default are the only constructors): the bit array has exactly
    // bits_capacity(entries, bits_per_entry) bytes. The REAL bits_capacity is used, so a change to
    // it changes the reachable states with it; its arithmetic is pinned by the bloom_bits_capacity_b* harnesses.
    kani::assume(bits_capacity(num_entries, num_bits_per_entry) == NB);
    let f = BloomFilter {
        num_entries,
        num_bits_per_entry,
        num_probes: P,
        bits: b.to_vec(),
    };
    let h = any_hash();
    let r = f.contains_hash(&h);
    kani::cover!(num_entries > 0);
    kani::cover!(!r);
    if num_entries > 0 && NB > 0 {
        let probes = f.get_probes(&h);
        // get_probes always pushes the first probe, so P = 0 still yields one
        assert_eq!(probes.len(), if P == 0 { 1 } else { P as usize });
        let mut i = 0;
        while i < probes.len() {
            assert!((probes[i] as usize) < 8 * NB);
            i += 1;
        }
        std::mem::forget(probes);
    }
    std::mem::forget(f);
}

macro_rules! contains_total_harness {
    ($name:ident, $nb:expr, $p:expr, $unwind:expr) => {
        #[kani::proof]
        #[kani::unwind($unwind)]
        fn $name() {
            contains_total::<$nb, $p>()
        }
    };
}
contains_total_harness!(bloom_contains_total_b0_p0, 0, 0, 3);
contains_total_harness!(bloom_contains_total_b0_p1, 0, 1, 3);
contains_total_harness!(bloom_contains_total_b0_p7, 0, 7, 9);
contains_total_harness!(bloom_contains_total_b1_p0, 1, 0, 3);
contains_total_harness!(bloom_contains_total_b1_p1, 1, 1, 3);
contains_total_harness!(bloom_contains_total_b1_p2, 1, 2, 4);
contains_total_harness!(bloom_contains_total_b1_p7, 1, 7, 9);
contains_total_harness!(bloom_contains_total_b2_p2, 2, 2, 4);
contains_total_harness!(bloom_contains_total_b2_p7, 2, 7, 9);
contains_total_harness!(bloom_contains_total_b3_p3, 3, 3, 5);
contains_total_harness!(bloom_contains_total_b3_p7, 3, 7, 9);
contains_total_harness!(bloom_contains_total_b3_p8, 3, 8, 10);

/// The decoder is total on every byte string of a fixed length, and what it accepts is
/// consistent: bits length = ceil(entries * bits_per_entry / 8) and nothing beyond the input.
fn parse_total<const N: usize>() {
    let bytes: [u8; N] = kani::any();
    match BloomFilter::parse(Input::new(&bytes)) {
        Ok((rest, f)) => {
            assert!(f.bits.len() <= N - 3);
            assert_eq!(f.bits.len() + rest.unconsumed_bytes().len() + 3 <= N, true);
            let want = (f.num_entries as u64 * f.num_bits_per_entry as u64 + 7) / 8;
            assert_eq!(f.bits.len() as u64, want);
            kani::cover!(N == 3 || f.bits.len() > 0);
            kani::cover!(f.bits.len() == 0);
            std::mem::forget(f);
        }
        Err(_) => {
            kani::cover!(true);
        }
    }
}

#[kani::proof]
#[kani::unwind(8)]
fn bloom_parse_total_len3() {
    parse_total::<3>()
}

#[kani::proof]
#[kani::unwind(8)]
fn bloom_parse_total_len4() {
    parse_total::<4>()
}

#[kani::proof]
#[kani::unwind(9)]
fn bloom_parse_total_len5() {
    parse_total::<5>()
}

#[kani::proof]
#[kani::unwind(10)]
fn bloom_parse_total_len6() {
    parse_total::<6>()
}

/// Through the public entry points: decode N untrusted bytes whose first two bytes (entry count,
/// bits per entry) are fixed so that the bit array has a concrete length, the probe-count byte and
/// the bit bytes are arbitrary; then query with an arbitrary hash. Never panics.
fn decode_then_query<const N: usize, const E: u8, const B: u8>() {
    let mut bytes: [u8; N] = kani::any();
    bytes[0] = E;
    bytes[1] = B;
    kani::assume(bytes[2] < 0x80);
    // BloomFilter::try_from is parse + map_err(to_string); the Display machinery of the (here
    // unreachable) error path costs 8 GB and 230 s under CBMC, so the decoder is entered directly.
    match BloomFilter::parse(Input::new(&bytes[..])) {
        Ok((_, f)) => {
            let h = any_hash();
            let r = f.contains_hash(&h);
            kani::cover!(r || f.bits.is_empty());
            kani::cover!(!r);
            std::mem::forget(f);
        }
        Err(_) => panic!("these parameters fit the input exactly"),
    }
}

#[kani::proof]
#[kani::unwind(4)]
fn bloom_decode_then_query_e1_b0() {
    decode_then_query::<3, 1, 0>()
}

/// Step budget (C17): the probe count is an arbitrary u32 from the wire; the work done by one
/// membership query must stay proportional to the size of the received filter. The unwind bound
/// 8*NB + 2 IS the budget: CBMC's unwinding assertion proves no loop iterates more often, or
/// returns the probe count that does.
fn probe_budget<const NB: usize>() {
    let b: [u8; NB] = kani::any();
    let f = BloomFilter {
        num_entries: kani::any(),
        num_bits_per_entry: kani::any(),
        num_probes: kani::any(),
        bits: b.to_vec(),
    };
    let h = any_hash();
    let probes = f.get_probes(&h);
    assert!(probes.len() <= 8 * NB);
    assert!(probes.capacity() <= 8 * NB);
    kani::cover!(probes.len() == 8 * NB);
    kani::cover!(probes.len() == 1);
    std::mem::forget(probes);
    std::mem::forget(f);
}

#[kani::proof]
#[kani::unwind(10)]
fn bloom_probe_budget_b1() {
    probe_budget::<1>()
}

#[kani::proof]
#[kani::unwind(18)]
fn bloom_probe_budget_b2() {
    probe_budget::<2>()
}


/// bits_capacity (f64 multiply, divide, ceil, cast) with one factor fixed and the other ANY u32
/// (a fully symbolic 32x32 floating-point product did not finish in 15 min; multiplication by a
/// constant keeps the query at seconds): exact ceil(e*b/8) whenever the product fits f64's 53-bit mantissa.
fn bits_capacity_const<const B: u32>() {
    let e: u32 = kani::any();
    let p = (e as u64) * (B as u64);
    let want = p.div_ceil(8);
    let got1 = bits_capacity(e, B) as u64;
    let got2 = bits_capacity(B, e) as u64;
    assert_eq!(got1, got2);
    if p < (1u64 << 53) {
        assert_eq!(got1, want);
    } else {
        assert!(got1.abs_diff(want) <= (1 << 11));
    }
    kani::cover!(e == u32::MAX);
    kani::cover!(want == 0);
}
macro_rules! bits_capacity_const_harness {
    ($name:ident, $b:expr) => {
        #[kani::proof]
        fn $name() {
            bits_capacity_const::<$b>()
        }
    };
}
bits_capacity_const_harness!(bloom_bits_capacity_b0, 0);
bits_capacity_const_harness!(bloom_bits_capacity_b1, 1);
bits_capacity_const_harness!(bloom_bits_capacity_b4, 4);
bits_capacity_const_harness!(bloom_bits_capacity_b10, 10);
bits_capacity_const_harness!(bloom_bits_capacity_b65536, 0x10000);
bits_capacity_const_harness!(bloom_bits_capacity_b40000000, 0x4000_0000);
