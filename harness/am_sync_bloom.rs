// harnesses for automerge/src/sync/bloom.rs
