// harnesses for automerge/src/lib.rs
