// Crate-root helpers shared by the harness files (child module of the automerge crate root).


/// Over-approximating stub for alloc::fmt::format: error paths build messages nobody inspects.
#[allow(dead_code)]
pub(crate) fn stub_format(_args: std::fmt::Arguments<'_>) -> String {
    String::new()
}

/// Seed for the few deliberately concretised constants (actor bytes, distinguishing hash bytes).
#[allow(dead_code)]
pub(crate) const fn seed() -> u64 {
    let s = env!("AUTOMERGE_VERIF_SEED").as_bytes();
    let mut v: u64 = 0;
    let mut i = 0;
    while i < s.len() {
        if s[i] >= b'0' && s[i] <= b'9' {
            v = v.wrapping_mul(10).wrapping_add((s[i] - b'0') as u64);
        }
        i += 1;
    }
    v
}
#[allow(dead_code)]
pub(crate) const SEED: u64 = seed();

/// Error messages are built with `id.to_string()`; nobody inspects them here. Formatting a symbolic
/// u64 is the most expensive thing in these harnesses, so Display for ExId / Cursor writes nothing.
fn stub_exid_fmt<'a, 'b, 'c>(_id: &'a crate::exid::ExId, _f: &'b mut std::fmt::Formatter<'c>) -> std::fmt::Result {
    Ok(())
}

// G-IDCONV: converting an external object id / cursor with a wire-controlled counter into an internal id.
fn stub_actor_random() -> crate::ActorId {
    crate::ActorId::from(&[0x11u8, 0x22][..])
}

fn stub_random_state_new() -> std::collections::hash_map::RandomState {
    // SAFETY-free: RandomState is two u64 keys; build one from fixed keys via transmute-free path is impossible,
    // so reuse the (deterministic under Kani) default construction of a BuildHasherDefault is not an option either.
    unsafe { std::mem::transmute::<[u64; 2], std::collections::hash_map::RandomState>([1, 2]) }
}

/// exid_to_opid on a document whose (sorted) actor table holds actors A < B: for ANY counter, ANY
/// actor-index hint and an id naming A, B or an absent actor C (A < C < B), the result is the internal
/// id (counter, index of that actor) -- through the hint when it is right, through the lookup
/// fallback when it is stale or out of range -- an error when the actor is not in this replica
/// (never another actor's object) or when the counter cannot name an op; never a panic.
#[kani::proof]
#[kani::unwind(18)]
#[kani::stub(crate::ActorId::random, stub_actor_random)]
#[kani::stub(std::collections::hash_map::RandomState::new, stub_random_state_new)]
#[kani::stub(alloc::fmt::format, stub_format)]
#[kani::stub(<crate::exid::ExId as std::fmt::Display>::fmt, stub_exid_fmt)]
fn idconv_exid_to_opid_total() {
    let which: u8 = kani::any();
    kani::assume(which < 3);
    exid_to_opid_body(which, kani::any(), kani::any());
}

fn exid_to_opid_body(which: u8, ctr: u64, hint: usize) {
    let mut doc = crate::Automerge::new();
    doc.ops.actors.push(crate::ActorId::from(&[0x33u8][..]));
    doc.ops.actors.push(crate::ActorId::from(&[0x55u8][..]));
    let actor = crate::ActorId::from(&[[0x33u8, 0x55, 0x44][which as usize]][..]);
    let id = crate::ObjId::Id(ctr, actor, hint);
    let r = doc.exid_to_opid(&id);
    match &r {
        Ok(o) => {
            assert!(which < 2, "an id of an actor this replica does not know must not resolve");
            assert!(o.counter() == ctr && o.actor() == which as usize);
            kani::cover!(hint != which as usize, "resolved through the lookup fallback");
            kani::cover!(hint == which as usize, "resolved through the hint");
            kani::cover!(hint > 2, "hint beyond the actor table");
        }
        Err(_) => {
            assert!(which == 2 || ctr > u32::MAX as u64);
            kani::cover!(which < 2 && ctr > u32::MAX as u64, "oversized counter rejected");
            kani::cover!(which == 2, "unknown actor rejected");
        }
    }
    std::mem::forget(r);
    std::mem::forget(id);
    std::mem::forget(doc);
}

/// Native replay grid for idconv_exid_to_opid_total (used only when CBMC's trace of this harness is
/// too large for Kani to emit a playback test): the same body over boundary inputs.
#[test]
fn replay_grid_idconv_exid_to_opid() {
    for which in 0..3u8 {
        for ctr in [0u64, 1, u32::MAX as u64, 1 << 32, (1 << 32) + 1, u64::MAX] {
            for hint in [0usize, 1, 2, 3, usize::MAX] {
                exid_to_opid_body(which, ctr, hint);
            }
        }
    }
}

/// op_cursor_to_opid (behind get_cursor_position) never panics, whatever counter the decoded cursor carries.
#[kani::proof]
#[kani::unwind(18)]
#[kani::stub(crate::ActorId::random, stub_actor_random)]
#[kani::stub(std::collections::hash_map::RandomState::new, stub_random_state_new)]
#[kani::stub(alloc::fmt::format, stub_format)]
fn idconv_op_cursor_to_opid_total() {
    op_cursor_to_opid_body(kani::any(), kani::any());
}

fn op_cursor_to_opid_body(ctr: u64, before: bool) {
    let mut doc = crate::Automerge::new();
    let actor = crate::ActorId::from(&[0x33u8][..]);
    doc.ops.actors.push(actor.clone());
    let c = crate::cursor::OpCursor {
        ctr,
        actor,
        move_cursor: if before { crate::cursor::MoveCursor::Before } else { crate::cursor::MoveCursor::After },
    };
    let r = doc.op_cursor_to_opid(&c, None);
    match &r {
        Ok(o) => {
            assert!(o.counter() == ctr && o.actor() == 0);
            kani::cover!(ctr == u32::MAX as u64, "largest representable counter resolves");
        }
        Err(_) => {
            assert!(ctr > u32::MAX as u64);
            kani::cover!(ctr > u32::MAX as u64, "oversized counter rejected");
        }
    }
    std::mem::forget(r);
    std::mem::forget(c);
    std::mem::forget(doc);
}

/// Native replay grid for idconv_op_cursor_to_opid_total (see replay_grid_idconv_exid_to_opid).
#[test]
fn replay_grid_idconv_op_cursor_to_opid() {
    for ctr in [0u64, 1, u32::MAX as u64, 1 << 32, (1 << 32) + 1, u64::MAX] {
        op_cursor_to_opid_body(ctr, false);
        op_cursor_to_opid_body(ctr, true);
    }
}

/// import_obj (string form of an object id, "<counter>@<actor hex>") on a document whose actor
/// table holds actor 0x33: for EVERY string `d@xy` with d a decimal digit and x, y ANY ASCII
/// bytes: Ok exactly when xy is the hex of a known actor, an error otherwise - never a panic
/// (a non-hex or odd-length actor part must be reported, not unwrapped).
#[kani::proof]
#[kani::unwind(8)]
#[kani::stub(crate::ActorId::random, stub_actor_random)]
#[kani::stub(std::collections::hash_map::RandomState::new, stub_random_state_new)]
#[kani::stub(alloc::fmt::format, stub_format)]
fn idconv_import_obj_total() {
    let d: u8 = kani::any();
    kani::assume(d >= b'0' && d <= b'9');
    let x: u8 = kani::any();
    let y: u8 = kani::any();
    kani::assume(x < 0x80 && y < 0x80);
    import_obj_body([d, b'@', x, y]);
}

fn import_obj_body(b: [u8; 4]) {
    let mut doc = crate::Automerge::new();
    doc.ops.actors.push(crate::ActorId::from(&[0x33u8][..]));
    let s = unsafe { std::str::from_utf8_unchecked(&b) };
    let r = doc.import_obj(s);
    let is33 = b[2] == b'3' && b[3] == b'3';
    match &r {
        Ok(id) => {
            assert!(is33);
            match id {
                crate::ObjId::Id(c, _, idx) => assert!(*c == (b[0] - b'0') as u64 && *idx == 0),
                crate::ObjId::Root => panic!("not the root"),
            }
        }
        Err(_) => assert!(!is33),
    }
    kani::cover!(r.is_ok());
    kani::cover!(r.is_err());
    std::mem::forget(r);
    std::mem::forget(doc);
}

/// Native replay grid for idconv_import_obj_total.
#[test]
fn replay_grid_idconv_import_obj() {
    for s in [*b"1@33", *b"1@zz", *b"1@3z", *b"0@34", *b"9@  "] {
        import_obj_body(s);
    }
}
