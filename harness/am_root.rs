// Crate-root helpers shared by the harness files (child module of the automerge crate root).


/// Over-approximating stub for alloc::fmt::format: error paths build messages nobody inspects.
#[allow(dead_code)]
pub(crate) fn stub_format(_args: std::fmt::Arguments<'_>) -> String {
    String::new()
}

/// Seed for the few deliberately concretised constants (actor bytes, distinguishing hash bytes).
#[allow(dead_code)]
pub(crate) const fn seed() -> u64 {
    let s = env!("AUTOMERGE_VERIF_SEED").as_bytes();
    let mut v: u64 = 0;
    let mut i = 0;
    while i < s.len() {
        if s[i] >= b'0' && s[i] <= b'9' {
            v = v.wrapping_mul(10).wrapping_add((s[i] - b'0') as u64);
        }
        i += 1;
    }
    v
}
#[allow(dead_code)]
pub(crate) const SEED: u64 = seed();
