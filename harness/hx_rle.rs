// harnesses for hexane/src/rle/mod.rs
