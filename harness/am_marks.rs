// harnesses for automerge/src/marks.rs
