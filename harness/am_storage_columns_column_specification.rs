// harnesses for automerge/src/storage/columns/column_specification.rs
