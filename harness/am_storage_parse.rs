// G-INPUT: parser cursor and combinators (child module of automerge::storage::parse).
use super::*;

const B: usize = 6;

/// An arbitrary *valid* Input over a 6-byte buffer: `bytes` is the suffix of `original` starting
/// at `position` (what Input::new followed by any sequence of takes/truncate produces).
fn any_valid_input(buf: &[u8; B]) -> (Input<'_>, usize, usize) {
    let end: usize = kani::any();
    let pos: usize = kani::any();
    kani::assume(end <= B && pos <= end);
    (
        Input {
            bytes: &buf[pos..end],
            position: pos,
            original: &buf[..end],
        },
        pos,
        end,
    )
}

fn valid(i: &Input<'_>) -> bool {
    i.position <= i.original.len()
        && i.bytes.len() == i.original.len() - i.position
        && (i.bytes.is_empty() || std::ptr::eq(i.bytes.as_ptr(), i.original[i.position..].as_ptr()))
}

/// One step of each taking combinator from an arbitrary valid state: never reads outside the
/// buffer, returns exactly the next bytes, advances by exactly that many, fails with the exact
/// shortfall otherwise, and leaves a valid state.
#[kani::proof]
#[kani::unwind(8)]
fn input_take_steps() {
    let buf: [u8; B] = kani::any();
    let (i, pos, end) = any_valid_input(&buf);
    assert!(valid(&i));
    let avail = end - pos;
    assert_eq!(i.is_empty(), avail == 0);
    assert_eq!(i.unconsumed_bytes().len(), avail);
    assert_eq!(i.bytes().len(), end);
    // take1
    match take1::<()>(i) {
        Ok((j, b)) => {
            assert!(avail >= 1 && b == buf[pos]);
            assert!(valid(&j) && j.position == pos + 1 && j.bytes.len() == avail - 1);
        }
        Err(ParseError::Incomplete(Needed::Size(k))) => assert!(avail == 0 && k.get() == 1),
        Err(_) => panic!("take1 has no other error"),
    }
    // take4
    match take4::<()>(i) {
        Ok((j, a)) => {
            assert!(avail >= 4);
            assert!(a[0] == buf[pos] && a[1] == buf[pos + 1] && a[2] == buf[pos + 2] && a[3] == buf[pos + 3]);
            assert!(valid(&j) && j.position == pos + 4);
        }
        Err(ParseError::Incomplete(Needed::Size(k))) => assert!(avail < 4 && k.get() == 4 - avail),
        Err(_) => panic!(),
    }
    // take_n with an arbitrary (wire-controlled) length: compared, never allocated
    let n: usize = kani::any();
    match take_n::<()>(n, i) {
        Ok((j, s)) => {
            assert!(n <= avail && s.len() == n);
            assert!(n == 0 || (s[0] == buf[pos] && s[n - 1] == buf[pos + n - 1]));
            assert!(valid(&j) && j.position == pos + n && j.bytes.len() == avail - n);
            kani::cover!(n == avail && n > 0);
        }
        Err(ParseError::Incomplete(Needed::Size(k))) => {
            assert!(n > avail && k.get() == n - avail);
            kani::cover!(n == usize::MAX);
        }
        Err(_) => panic!(),
    }
    // rest
    match i.rest::<()>() {
        Ok((j, s)) => {
            assert!(s.len() == avail && j.is_empty() && valid(&j) && j.position == end);
        }
        Err(_) => panic!(),
    }
    // range_of reports the consumed range in absolute positions
    let k: usize = kani::any();
    kani::assume(k <= avail);
    match range_of(|x| take_n::<()>(k, x), i) {
        Ok((_, r)) => assert!(r.range.start == pos && r.range.end == pos + k),
        Err(_) => panic!(),
    }
    kani::cover!(avail == 0);
    kani::cover!(avail == B);
}

/// split(len) + reset, the way Chunk::parse and load_changes walk concatenated chunks: `first`
/// sees exactly the next min(len, available) bytes and `remaining.reset()` exactly what follows.
#[kani::proof]
#[kani::unwind(8)]
fn input_split_then_reset() {
    let buf: [u8; B] = kani::any();
    let (i, pos, end) = any_valid_input(&buf);
    let avail = end - pos;
    let len: usize = kani::any();
    let m = if len > avail { avail } else { len };
    let Split { first, remaining } = i.split(len);
    assert!(valid(&first));
    assert!(first.position == pos && first.bytes.len() == m && first.original.len() == pos + m);
    assert!(m == 0 || (first.bytes[0] == buf[pos] && first.bytes[m - 1] == buf[pos + m - 1]));
    let next = remaining.reset();
    assert!(valid(&next) && next.position == 0);
    assert_eq!(next.bytes.len(), avail - m);
    assert!(avail - m == 0 || (next.bytes[0] == buf[pos + m] && next.bytes[avail - m - 1] == buf[end - 1]));
    assert_eq!(remaining.is_empty(), avail == m);
    // truncate alone
    let t = i.truncate(len);
    assert!(valid(&t) && t.bytes.len() == m && t.position == pos);
    kani::cover!(len > avail);
    kani::cover!(len < avail && len > 0);
    kani::cover!(len == avail && avail > 0);
}

/// length_prefixed_bytes: the length comes from the wire; Ok only if that many bytes follow.
#[kani::proof]
#[kani::unwind(12)]
fn input_length_prefixed_bytes() {
    let buf: [u8; B] = kani::any();
    match length_prefixed_bytes::<leb128::Error>(Input::new(&buf)) {
        Ok((j, s)) => {
            let used = B - j.unconsumed_bytes().len();
            assert!(s.len() < used && used <= B);
            assert!(valid(&j));
            // one-byte length prefixes are the only ones that can fit in 6 bytes
            assert!(buf[0] < 0x80 && s.len() == buf[0] as usize && used == 1 + s.len());
            assert!(s.is_empty() || (s[0] == buf[1] && s[s.len() - 1] == buf[s.len()]));
            kani::cover!(s.len() == 5);
            kani::cover!(s.is_empty());
        }
        Err(_) => {
            kani::cover!(buf[0] == 6);
            kani::cover!(buf[0] == 0xff && buf[1] == 0xff);
        }
    }
}

/// length_prefixed(g): the element count comes from the wire (any u64) but every iteration must
/// consume input, so over an n-byte buffer the loop runs at most n+1 times (unwind = budget) and
/// nothing is allocated from the count. Element parser: actor_id (>= 1 byte each).
#[kani::proof]
#[kani::unwind(9)]
#[kani::stub(<crate::ActorId as std::convert::From<&[u8]>>::from, crate::types::verif_kani::stub_actor_from_slice)]
fn input_length_prefixed_actor_ids_budget() {
    let buf: [u8; 5] = kani::any();
    let r = length_prefixed(actor_id::<leb128::Error>)(Input::new(&buf));
    match r {
        Ok((j, v)) => {
            assert!(v.len() <= 4);
            assert!(v.len() + 1 <= 5 - j.unconsumed_bytes().len());
            kani::cover!(v.len() == 4);
            kani::cover!(v.is_empty());
            std::mem::forget(v);
        }
        Err(e) => {
            kani::cover!(buf[0] == 0xff);
            std::mem::forget(e);
        }
    }
}

/// Same with 32-byte change hashes as elements (sync heads / deps): 40-byte input, any count.
#[kani::proof]
#[kani::unwind(12)]
fn input_length_prefixed_hashes_budget() {
    let buf: [u8; 40] = kani::any();
    let r = length_prefixed(change_hash::<leb128::Error>)(Input::new(&buf));
    match r {
        Ok((j, v)) => {
            assert!(v.len() <= 1);
            if v.len() == 1 {
                assert!(buf[0] == 1 && j.unconsumed_bytes().len() == 7);
                assert!(v[0].0[0] == buf[1] && v[0].0[31] == buf[32]);
            } else {
                assert!(buf[0] == 0);
            }
            kani::cover!(v.len() == 1);
            kani::cover!(v.is_empty());
            std::mem::forget(v);
        }
        Err(e) => {
            kani::cover!(buf[0] == 2);
            std::mem::forget(e);
        }
    }
}

/// apply_n with a large n stops at the first failing element.
#[kani::proof]
#[kani::unwind(8)]
fn input_apply_n_budget() {
    let buf: [u8; 4] = kani::any();
    let n: usize = kani::any();
    let r = apply_n(n, take1::<()>)(Input::new(&buf));
    match r {
        Ok((j, v)) => {
            assert!(n <= 4 && v.len() == n && j.unconsumed_bytes().len() == 4 - n);
            kani::cover!(n == 4);
            std::mem::forget(v);
        }
        Err(_) => {
            assert!(n > 4);
            kani::cover!(n == usize::MAX);
        }
    }
}

/// A count prefix of u64::MAX (resp. 2^63) followed by 35 zero bytes: length_prefixed must fail with
/// "not enough input" after at most one element - it must not size anything from the count
/// (Vec::with_capacity(count) aborts with a capacity overflow here, and with a count of 2^40 it
/// would ask the allocator for terabytes). Deliberately concrete: it is the replayable witness for
/// input_length_prefixed_hashes_budget (ANY count), which a symbolic-size allocation makes
/// undecidable for CBMC instead of failing.
fn huge_count(first9: u8) {
    let mut buf = [0u8; 45];
    let mut i = 0;
    while i < 9 {
        buf[i] = first9;
        i += 1;
    }
    buf[9] = 0x01;
    kani::cover!(true, "entry (replay witness)");
    let r = length_prefixed(change_hash::<leb128::Error>)(Input::new(&buf));
    assert!(r.is_err());
    std::mem::forget(r);
}

#[kani::proof]
#[kani::unwind(13)]
fn input_length_prefixed_huge_count_max() {
    huge_count(0xff)
}

#[kani::proof]
#[kani::unwind(13)]
fn input_length_prefixed_huge_count_2p63() {
    huge_count(0x80)
}

/// apply_n with n = usize::MAX (resp. 2^62) over a concrete 4-byte input: fails at the second
/// element, allocates nothing proportional to n (replayable witness for input_apply_n_budget).
fn apply_huge(n: usize) {
    let buf = [1u8, 2, 3, 4];
    kani::cover!(true, "entry (replay witness)");
    let r = apply_n(n, take4::<()>)(Input::new(&buf));
    assert!(r.is_err());
    std::mem::forget(r);
}

#[kani::proof]
#[kani::unwind(8)]
fn input_apply_n_huge_count_max() {
    apply_huge(usize::MAX)
}

#[kani::proof]
#[kani::unwind(8)]
fn input_apply_n_huge_count_2p62() {
    apply_huge(1 << 62)
}
