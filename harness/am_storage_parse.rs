// harnesses for automerge/src/storage/parse.rs
