// harnesses for automerge/src/text_diff.rs
