// harnesses for automerge/src/change.rs
