// harnesses for hexane/src/lib.rs
