// G-HEX-pack: hexane value packers (child module of the hexane crate root). C35, C39.
// Included by /repo/rust/hexane/src/lib.rs under cfg(kani). Also holds helpers shared by the
// other hx_*.rs files (reachable as crate::verif_kani::*).
use super::*;
use std::num::NonZeroU32;

/// Over-approximating stub for alloc::fmt::format: error paths build messages nobody inspects.
#[allow(dead_code)]
pub(crate) fn stub_format(_args: std::fmt::Arguments<'_>) -> String {
    String::new()
}

/// Hand-written UTF-8 validity oracle (Unicode 15 table 3-7: shortest form, no surrogates,
/// <= U+10FFFF). Deliberately independent of std::str::from_utf8, which the code under test uses.
#[allow(dead_code)]
pub(crate) fn valid_utf8(b: &[u8]) -> bool {
    let mut i = 0;
    while i < b.len() {
        let c = b[i];
        if c < 0x80 {
            i += 1;
            continue;
        }
        let (n, lo, hi): (usize, u8, u8) = match c {
            0xC2..=0xDF => (1, 0x80, 0xBF),
            0xE0 => (2, 0xA0, 0xBF),
            0xE1..=0xEC | 0xEE..=0xEF => (2, 0x80, 0xBF),
            0xED => (2, 0x80, 0x9F),
            0xF0 => (3, 0x90, 0xBF),
            0xF1..=0xF3 => (3, 0x80, 0xBF),
            0xF4 => (3, 0x80, 0x8F),
            _ => return false,
        };
        if i + n >= b.len() {
            return false;
        }
        if b[i + 1] < lo || b[i + 1] > hi {
            return false;
        }
        if n >= 2 && b[i + 2] & 0xC0 != 0x80 {
            return false;
        }
        if n >= 3 && b[i + 3] & 0xC0 != 0x80 {
            return false;
        }
        i += n + 1;
    }
    true
}

/// Element-wise slice equality (slice == is a memcmp loop CBMC unrolls to the unwind bound).
#[allow(dead_code)]
pub(crate) fn same_bytes(a: &[u8], b: &[u8]) -> bool {
    if a.len() != b.len() {
        return false;
    }
    let mut i = 0;
    while i < a.len() {
        if a[i] != b[i] {
            return false;
        }
        i += 1;
    }
    true
}

// ---------------------------------------------------------------------------------------------
// scalar packers: try_unpack(pack(v)) = (bytes written, v), value_len = bytes written, unpack agrees

macro_rules! scalar_roundtrip {
    ($name:ident, $t:ty, $any:expr, $cover:expr) => {
        #[kani::proof]
        #[kani::unwind(12)]
        fn $name() {
            let v: $t = $any;
            // capacity is concrete and sufficient: a Vec that grows by a symbolic amount (the varint
            // length) is a symbolic-size allocation, which CBMC does not finish (out of memory)
            let mut out: Vec<u8> = Vec::with_capacity(16);
            let wrote = <$t as RleValue>::pack::<Leb128>(v, &mut out);
            assert!(wrote);
            let n = out.len();
            assert!(n >= 1 && n <= 10);
            match <$t as RleValue>::try_unpack::<Leb128>(&out) {
                Ok((used, back)) => {
                    assert_eq!(used, n);
                    assert!(back == v);
                }
                Err(e) => {
                    std::mem::forget(e);
                    panic!("a packed value must unpack");
                }
            }
            let (used, back) = <$t as RleValue>::unpack::<Leb128>(&out);
            assert_eq!(used, n);
            assert!(back == v);
            assert_eq!(<$t as RleValue>::value_len::<Leb128>(&out), Some(n));
            assert!(!<$t as RleValue>::NULLABLE);
            kani::cover!($cover(v));
            kani::cover!(n == 1);
            std::mem::forget(out);
        }
    };
}
scalar_roundtrip!(pack_roundtrip_u64, u64, kani::any(), |v: u64| v == u64::MAX);
scalar_roundtrip!(pack_roundtrip_i64, i64, kani::any(), |v: i64| v == i64::MIN);
scalar_roundtrip!(pack_roundtrip_u32, u32, kani::any(), |v: u32| v == u32::MAX);
scalar_roundtrip!(pack_roundtrip_usize, usize, kani::any(), |v: usize| v == usize::MAX);
scalar_roundtrip!(pack_roundtrip_nonzero_u32, NonZeroU32, kani::any(), |v: NonZeroU32| v.get() == u32::MAX);

/// Option<u64>: Some packs like the bare value and unpacks to Some; None writes nothing and reports so.
#[kani::proof]
#[kani::unwind(12)]
fn pack_roundtrip_option_u64() {
    let v: Option<u64> = kani::any();
    let mut out: Vec<u8> = Vec::with_capacity(16);
    let wrote = <Option<u64> as RleValue>::pack::<Leb128>(v, &mut out);
    assert_eq!(wrote, v.is_some());
    assert_eq!(<Option<u64> as RleValue>::is_null(v), v.is_none());
    assert!(<Option<u64> as RleValue>::NULLABLE);
    assert!(<Option<u64> as RleValue>::get_null().is_none());
    if let Some(x) = v {
        match <Option<u64> as RleValue>::try_unpack::<Leb128>(&out) {
            Ok((used, back)) => {
                assert_eq!(used, out.len());
                assert!(back == Some(x));
            }
            Err(e) => {
                std::mem::forget(e);
                panic!("a packed value must unpack");
            }
        }
        let (used, back) = <Option<u64> as RleValue>::unpack::<Leb128>(&out);
        assert!(used == out.len() && back == Some(x));
        kani::cover!(x == u64::MAX);
    } else {
        assert!(out.is_empty());
        kani::cover!(true);
    }
    std::mem::forget(out);
}

/// The narrowing packers reject what does not fit instead of truncating: on EVERY N-byte input
/// u32 / NonZeroU32 / usize try_unpack succeed exactly when the u64 read succeeds and the value is
/// in range, and then return that value.
fn narrowing_total<const N: usize>() {
    let b: [u8; N] = kani::any();
    let wide = Leb128::read_unsigned(&b);
    match <u32 as RleValue>::try_unpack::<Leb128>(&b) {
        Ok((n, v)) => {
            assert!(wide == Some((n, v as u64)));
            kani::cover!(v == u32::MAX || N < 5);
        }
        Err(e) => {
            assert!(match wide {
                None => true,
                Some((_, w)) => w > u32::MAX as u64,
            });
            kani::cover!(wide.is_some() || N < 5);
            std::mem::forget(e);
        }
    }
    match <NonZeroU32 as RleValue>::try_unpack::<Leb128>(&b) {
        Ok((n, v)) => assert!(wide == Some((n, v.get() as u64))),
        Err(e) => {
            assert!(match wide {
                None => true,
                Some((_, w)) => w > u32::MAX as u64 || w == 0,
            });
            kani::cover!(wide.is_some());
            std::mem::forget(e);
        }
    }
    match <usize as RleValue>::try_unpack::<Leb128>(&b) {
        Ok((n, v)) => assert!(wide == Some((n, v as u64))),
        Err(e) => {
            assert!(wide.is_none());
            std::mem::forget(e);
        }
    }
    match <i64 as RleValue>::try_unpack::<Leb128>(&b) {
        Ok(x) => assert!(Leb128::read_signed(&b) == Some(x)),
        Err(e) => {
            assert!(Leb128::read_signed(&b).is_none());
            std::mem::forget(e);
        }
    }
}

macro_rules! fixed_len_harness {
    ($name:ident, $f:ident, $n:expr, $unwind:expr) => {
        #[kani::proof]
        #[kani::unwind($unwind)]
        fn $name() {
            $f::<$n>()
        }
    };
}
fixed_len_harness!(pack_narrowing_total_len1, narrowing_total, 1, 4);
fixed_len_harness!(pack_narrowing_total_len2, narrowing_total, 2, 5);
fixed_len_harness!(pack_narrowing_total_len5, narrowing_total, 5, 8);
fixed_len_harness!(pack_narrowing_total_len6, narrowing_total, 6, 9);

// ---------------------------------------------------------------------------------------------
// byte-string packers

/// Vec<u8>: pack/try_unpack/unpack/value_len round trip for every payload of N bytes.
fn bytes_roundtrip<const N: usize>() {
    let p: [u8; N] = kani::any();
    let mut out: Vec<u8> = Vec::new();
    assert!(<Vec<u8> as RleValue>::pack::<Leb128>(&p[..], &mut out));
    assert_eq!(out.len(), N + 1);
    assert_eq!(out[0] as usize, N);
    match <Vec<u8> as RleValue>::try_unpack::<Leb128>(&out) {
        Ok((used, back)) => {
            assert_eq!(used, N + 1);
            assert!(same_bytes(back, &p));
        }
        Err(e) => {
            std::mem::forget(e);
            panic!("packed bytes must unpack");
        }
    }
    let (used, back) = <Vec<u8> as RleValue>::unpack::<Leb128>(&out);
    assert_eq!(used, N + 1);
    assert!(same_bytes(back, &p));
    assert_eq!(<Vec<u8> as RleValue>::value_len::<Leb128>(&out), Some(N + 1));
    kani::cover!(N == 0 || p[N - 1] == 0xff);
    std::mem::forget(out);
}
fixed_len_harness!(pack_roundtrip_bytes_len0, bytes_roundtrip, 0, 4);
fixed_len_harness!(pack_roundtrip_bytes_len1, bytes_roundtrip, 1, 5);
fixed_len_harness!(pack_roundtrip_bytes_len3, bytes_roundtrip, 3, 7);

/// Vec<u8>::try_unpack / value_len on EVERY N-byte input: never reads past the input, the value
/// is exactly the declared number of bytes after the header, value_len agrees with try_unpack,
/// String::value_len agrees too (it skips without validating).
fn bytes_unpack_total<const N: usize>() {
    let b: [u8; N] = kani::any();
    let vl = <Vec<u8> as RleValue>::value_len::<Leb128>(&b);
    assert_eq!(<String as RleValue>::value_len::<Leb128>(&b), vl);
    match <Vec<u8> as RleValue>::try_unpack::<Leb128>(&b) {
        Ok((used, v)) => {
            assert!(used <= N);
            assert_eq!(vl, Some(used));
            match Leb128::read_unsigned(&b) {
                Some((hdr, len)) => {
                    assert_eq!(v.len() as u64, len);
                    assert_eq!(used, hdr + v.len());
                    assert!(same_bytes(v, &b[hdr..used]));
                }
                None => panic!("accepted without a length header"),
            }
            // the unchecked path agrees on accepted input
            let (u2, v2) = <Vec<u8> as RleValue>::unpack::<Leb128>(&b);
            assert!(u2 == used && same_bytes(v, v2));
            kani::cover!(v.len() == N - 1);
            kani::cover!(v.is_empty());
        }
        Err(e) => {
            assert!(vl.is_none());
            kani::cover!(true);
            std::mem::forget(e);
        }
    }
}
fixed_len_harness!(pack_bytes_unpack_total_len1, bytes_unpack_total, 1, 4);
fixed_len_harness!(pack_bytes_unpack_total_len2, bytes_unpack_total, 2, 5);
fixed_len_harness!(pack_bytes_unpack_total_len3, bytes_unpack_total, 3, 6);
fixed_len_harness!(pack_bytes_unpack_total_len4, bytes_unpack_total, 4, 7);
fixed_len_harness!(pack_bytes_unpack_total_len5, bytes_unpack_total, 5, 8);

// ---------------------------------------------------------------------------------------------
// strings (C39)

/// String round trip for a symbolic char (1..=4 UTF-8 bytes: every scalar value).
#[kani::proof]
#[kani::unwind(8)]
fn pack_roundtrip_string_char() {
    let c: char = kani::any();
    let mut tmp = [0u8; 4];
    let s: &str = c.encode_utf8(&mut tmp);
    let n = s.len();
    let mut out: Vec<u8> = Vec::with_capacity(16);
    assert!(<String as RleValue>::pack::<Leb128>(s, &mut out));
    assert_eq!(out.len(), n + 1);
    assert_eq!(out[0] as usize, n);
    assert!(valid_utf8(&out[1..]));
    let (used, back) = <String as RleValue>::unpack::<Leb128>(&out);
    assert_eq!(used, n + 1);
    assert!(same_bytes(back.as_bytes(), s.as_bytes()));
    assert_eq!(<String as RleValue>::value_len::<Leb128>(&out), Some(n + 1));
    kani::cover!(n == 1);
    kani::cover!(n == 4);
    std::mem::forget(out);
}

/// String round trip through the CHECKED decoder for ASCII payloads of N bytes.
fn string_roundtrip_ascii<const N: usize>() {
    let p: [u8; N] = kani::any();
    let mut i = 0;
    while i < N {
        kani::assume(p[i] < 0x80);
        i += 1;
    }
    let s = unsafe { std::str::from_utf8_unchecked(&p) };
    let mut out: Vec<u8> = Vec::new();
    assert!(<String as RleValue>::pack::<Leb128>(s, &mut out));
    assert_eq!(out.len(), N + 1);
    match <String as RleValue>::try_unpack::<Leb128>(&out) {
        Ok((used, back)) => {
            assert_eq!(used, N + 1);
            assert!(same_bytes(back.as_bytes(), &p));
        }
        Err(e) => {
            std::mem::forget(e);
            panic!("a packed string must unpack");
        }
    }
    kani::cover!(N == 0 || p[N - 1] == b'z');
    std::mem::forget(out);
}

/// The empty string round-trips through the checked and the unchecked decoder.
#[kani::proof]
#[kani::unwind(4)]
fn pack_roundtrip_string_empty() {
    let mut out: Vec<u8> = Vec::with_capacity(4);
    assert!(<String as RleValue>::pack::<Leb128>("", &mut out));
    assert!(out.len() == 1 && out[0] == 0);
    match <String as RleValue>::try_unpack::<Leb128>(&out) {
        Ok((used, back)) => {
            assert!(used == 1 && back.is_empty());
            kani::cover!(true);
        }
        Err(e) => {
            std::mem::forget(e);
            panic!("the empty string must unpack");
        }
    }
    let (used, back) = <String as RleValue>::unpack::<Leb128>(&out);
    assert!(used == 1 && back.is_empty());
    std::mem::forget(out);
}
fixed_len_harness!(pack_roundtrip_string_ascii_len1, string_roundtrip_ascii, 1, 5);
fixed_len_harness!(pack_roundtrip_string_ascii_len2, string_roundtrip_ascii, 2, 6);
fixed_len_harness!(pack_roundtrip_string_ascii_len3, string_roundtrip_ascii, 3, 7);

/// C39 core. On EVERY N-byte input, String::try_unpack
///  - never panics and never reads past the input,
///  - returns Ok exactly when the length header is readable, the declared bytes are present and
///    they are valid UTF-8 by the independent oracle (so: Ok => valid UTF-8, and nothing valid is lost),
///  - and then the unchecked String::unpack (from_utf8_unchecked) returns the same bytes.
fn string_unpack_total<const N: usize>() {
    let b: [u8; N] = kani::any();
    let expect: Option<(usize, usize)> = match Leb128::read_unsigned(&b) {
        Some((hdr, len)) if len <= (N - hdr) as u64 => Some((hdr, hdr + len as usize)),
        _ => None,
    };
    match <String as RleValue>::try_unpack::<Leb128>(&b) {
        Ok((used, s)) => {
            let (hdr, end) = match expect {
                Some(x) => x,
                None => panic!("accepted a truncated or headerless string"),
            };
            assert_eq!(used, end);
            assert!(same_bytes(s.as_bytes(), &b[hdr..end]));
            assert!(valid_utf8(s.as_bytes()));
            let (u2, s2) = <String as RleValue>::unpack::<Leb128>(&b);
            assert_eq!(u2, used);
            assert!(same_bytes(s2.as_bytes(), s.as_bytes()));
            kani::cover!(s.len() == N - 1);
            kani::cover!(N < 3 || (s.len() == N - 1 && b[1] >= 0x80));
            kani::cover!(s.is_empty());
        }
        Err(e) => {
            if let Some((hdr, end)) = expect {
                assert!(!valid_utf8(&b[hdr..end]));
            }
            kani::cover!(N < 2 || expect.is_some());
            std::mem::forget(e);
        }
    }
}
fixed_len_harness!(pack_string_unpack_total_len1, string_unpack_total, 1, 4);
fixed_len_harness!(pack_string_unpack_total_len2, string_unpack_total, 2, 5);
fixed_len_harness!(pack_string_unpack_total_len3, string_unpack_total, 3, 6);
fixed_len_harness!(pack_string_unpack_total_len4, string_unpack_total, 4, 7);
fixed_len_harness!(pack_string_unpack_total_len5, string_unpack_total, 5, 8);

/// A length prefix near the top of the u64 range (any 10-byte varint with the top bit set, value
/// >= 2^63; resp. any 9-byte varint, value >= 2^56) followed by payload bytes: String / Vec<u8>
/// try_unpack and value_len must answer "not enough data", without wrapping `header + length`
/// around (an untrusted prefix of 0xffff_ffff_ffff_fff6 must not become a small end offset).
fn huge_prefix<const N: usize, const HDR: usize>() {
    let mut b: [u8; N] = kani::any();
    let mut i = 0;
    while i < HDR - 1 {
        b[i] |= 0x80;
        i += 1;
    }
    if HDR == 10 {
        kani::assume(b[9] == 1);
    } else {
        kani::assume(b[HDR - 1] < 0x80 && b[HDR - 1] > 0);
    }
    match Leb128::read_unsigned(&b) {
        Some((hdr, len)) => {
            assert!(hdr == HDR);
            assert!(len >= (1u64 << (7 * (HDR - 1))));
        }
        None => panic!("a well-formed varint"),
    }
    let rs = <String as RleValue>::try_unpack::<Leb128>(&b);
    assert!(rs.is_err());
    let rb = <Vec<u8> as RleValue>::try_unpack::<Leb128>(&b);
    assert!(rb.is_err());
    assert!(<Vec<u8> as RleValue>::value_len::<Leb128>(&b).is_none());
    kani::cover!(b[0] == 0xf6);
    std::mem::forget(rs);
    std::mem::forget(rb);
}

#[kani::proof]
#[kani::unwind(13)]
#[kani::stub(alloc::fmt::format, stub_format)]
fn pack_huge_length_prefix_rejected_10() {
    huge_prefix::<11, 10>()
}

#[kani::proof]
#[kani::unwind(13)]
#[kani::stub(alloc::fmt::format, stub_format)]
fn pack_huge_length_prefix_rejected_9() {
    huge_prefix::<10, 9>()
}

// ---------------------------------------------------------------------------------------------
// Reference LEB128 readers, proved equal to the crate's Leb128 reads by codec_ref_equiv_len*
// (hx_codec.rs) and used as stubs for them in the RLE harnesses (hx_rle_load.rs).

pub(crate) fn ref_read_unsigned<'a>(data: &'a [u8]) -> Option<(usize, u64)> {
    let mut result: u64 = 0;
    let mut i = 0;
    while i < data.len() && i < 10 {
        let byte = data[i];
        if i == 9 && byte > 1 {
            return None; // 10th byte may only carry bit 63
        }
        result |= ((byte & 0x7f) as u64) << (7 * i);
        if byte & 0x80 == 0 {
            return Some((i + 1, result));
        }
        i += 1;
    }
    None
}

pub(crate) fn ref_read_signed<'a>(data: &'a [u8]) -> Option<(usize, i64)> {
    let mut result: i64 = 0;
    let mut i = 0;
    while i < data.len() && i < 10 {
        let byte = data[i];
        if i == 9 && byte != 0 && byte != 0x7f {
            return None;
        }
        result |= ((byte & 0x7f) as i64) << (7 * i);
        if byte & 0x80 == 0 {
            let shift = 7 * (i + 1);
            if shift < 64 && byte & 0x40 != 0 {
                result |= -1i64 << shift;
            }
            return Some((i + 1, result));
        }
        i += 1;
    }
    None
}

pub(crate) fn ref_try_read_unsigned<'a>(data: &'a [u8]) -> Result<(usize, u64), crate::PackError> {
    ref_read_unsigned(data).ok_or(crate::PackError::InvalidNumber(::leb128::read::Error::Overflow))
}

pub(crate) fn ref_try_read_signed<'a>(data: &'a [u8]) -> Result<(usize, i64), crate::PackError> {
    ref_read_signed(data).ok_or(crate::PackError::InvalidNumber(::leb128::read::Error::Overflow))
}


/// Strings longer than a machine word: 8 ASCII bytes (any values < 0x80) followed by a TAIL of T
/// arbitrary bytes. String::try_unpack accepts exactly when the tail is valid UTF-8 - a word-at-a-
/// time ASCII scan (std has one; a "fast path" added here would be another) must not skip the
/// bytes after the last full word.
fn string_word_then_tail<const T: usize, const N: usize>() {
    let mut b: [u8; N] = kani::any();
    b[0] = (8 + T) as u8;
    let mut i = 1;
    while i <= 8 {
        b[i] &= 0x7f;
        i += 1;
    }
    let tail_ok = valid_utf8(&b[9..]);
    match <String as RleValue>::try_unpack::<Leb128>(&b) {
        Ok((used, s)) => {
            assert!(tail_ok);
            assert!(used == N && s.len() == 8 + T);
            assert!(same_bytes(s.as_bytes(), &b[1..]));
        }
        Err(e) => {
            assert!(!tail_ok);
            std::mem::forget(e);
        }
    }
    kani::cover!(tail_ok && (T == 1 || b[9] >= 0x80));
    kani::cover!(!tail_ok);
}

#[kani::proof]
#[kani::unwind(14)]
#[kani::stub(alloc::fmt::format, stub_format)]
fn pack_string_word_then_tail1() {
    string_word_then_tail::<1, 10>()
}

#[kani::proof]
#[kani::unwind(14)]
#[kani::stub(alloc::fmt::format, stub_format)]
fn pack_string_word_then_tail2() {
    string_word_then_tail::<2, 11>()
}
