// G-IDS (cursor part): Cursor string / byte decoders and encoders (child module of automerge::cursor).
use super::*;

/// Build a &str from constrained bytes without std::str::from_utf8 (which explodes on symbolic input).
macro_rules! ascii_str_harness {
    ($name:ident, $n:expr) => {
        /// Cursor::try_from(&str) is total on every ASCII string of this length.
        #[kani::proof]
        #[kani::unwind(7)]
        fn $name() {
            let b: [u8; $n] = kani::any();
            let mut i = 0;
            while i < $n {
                kani::assume(b[i] < 0x80);
                i += 1;
            }
            let s = unsafe { std::str::from_utf8_unchecked(&b) };
            let r = Cursor::try_from(s);
            let r_is_ok = r.is_ok();
            match r {
                Ok(c) => {
                    assert!($n > 0, "the empty string is not a cursor");
                    std::mem::forget(c);
                }
                Err(e) => {
                    std::mem::forget(e);
                }
            }
            // witnesses: at least one string of this length is rejected; for n > 0 one is accepted
            kani::cover!(r_is_ok == ($n > 0), "accepted (n > 0) / rejected (n = 0)");
            kani::cover!(!r_is_ok, "rejected");
        }
    };
}
ascii_str_harness!(cursor_str_total_len0, 0);
ascii_str_harness!(cursor_str_total_len1, 1);
ascii_str_harness!(cursor_str_total_len2, 2);
ascii_str_harness!(cursor_str_total_len3, 3);
ascii_str_harness!(cursor_str_total_len4, 4);

macro_rules! prefixed_str_harness {
    ($name:ident, $prefix:expr, $pn:expr, $n:expr) => {
        /// Cursor::try_from(&str) is total on a fixed multi-byte first character followed by any ASCII tail.
        #[kani::proof]
        #[kani::unwind(7)]
        fn $name() {
            let p: &[u8] = $prefix.as_bytes();
            let mut b: [u8; $pn + $n] = [0; $pn + $n];
            let mut i = 0;
            while i < $pn {
                b[i] = p[i];
                i += 1;
            }
            while i < $pn + $n {
                let x: u8 = kani::any();
                kani::assume(x < 0x80);
                b[i] = x;
                i += 1;
            }
            let s = unsafe { std::str::from_utf8_unchecked(&b) };
            let r = Cursor::try_from(s);
            kani::cover!(r.is_err(), "rejected");
            std::mem::forget(r);
        }
    };
}
prefixed_str_harness!(cursor_str_total_2byte_first_t0, "\u{e9}", 2, 0);
prefixed_str_harness!(cursor_str_total_2byte_first_t2, "\u{e9}", 2, 2);
prefixed_str_harness!(cursor_str_total_3byte_first_t1, "\u{20ac}", 3, 1);
prefixed_str_harness!(cursor_str_total_4byte_first_t1, "\u{10000}", 4, 1);

macro_rules! bytes_harness {
    ($name:ident, $n:expr) => {
        /// Cursor::try_from(&[u8]) is total on every input of this length (the actor copy is
        /// over-approximated: same length, arbitrary content).
        #[kani::proof]
        #[kani::unwind(12)]
        #[kani::stub(<crate::ActorId as std::convert::From<&[u8]>>::from, crate::types::verif_kani::stub_actor_from_slice)]
        fn $name() {
            let b: [u8; $n] = kani::any();
            let r = Cursor::try_from(&b[..]);
            match r {
                Ok(c) => {
                    // what was accepted re-encodes to a prefix-compatible length
                    let g = |i: usize| if i < $n { b[i] } else { 0xff };
                    match &c {
                        Cursor::Start => assert!(g(0) == 1 && g(1) == 1),
                        Cursor::End => assert!(g(0) == 1 && g(1) == 2),
                        Cursor::Op(o) => {
                            assert!(g(0) == 0 || (g(0) == 1 && g(1) == 3));
                            assert!(o.actor.to_bytes().len() + 3 <= $n);
                        }
                    }
                    kani::cover!(true, "accepted");
                    std::mem::forget(c);
                }
                Err(e) => {
                    kani::cover!(true, "rejected");
                    std::mem::forget(e);
                }
            }
        }
    };
}
bytes_harness!(cursor_bytes_total_len0, 0);
bytes_harness!(cursor_bytes_total_len1, 1);
bytes_harness!(cursor_bytes_total_len2, 2);
bytes_harness!(cursor_bytes_total_len3, 3);
bytes_harness!(cursor_bytes_total_len4, 4);
bytes_harness!(cursor_bytes_total_len5, 5);
bytes_harness!(cursor_bytes_total_len6, 6);
bytes_harness!(cursor_bytes_total_len8, 8);
