// harnesses for automerge/src/cursor.rs
