// G-IDS (cursor part): Cursor string / byte decoders and encoders (child module of automerge::cursor).
use super::*;

/// Build a &str from constrained bytes without std::str::from_utf8 (which explodes on symbolic input).
macro_rules! ascii_str_harness {
    ($name:ident, $n:expr) => {
        /// Cursor::try_from(&str) is total on every ASCII string of this length.
        #[kani::proof]
        #[kani::unwind(7)]
        fn $name() {
            let b: [u8; $n] = kani::any();
            let mut i = 0;
            while i < $n {
                kani::assume(b[i] < 0x80);
                i += 1;
            }
            let s = unsafe { std::str::from_utf8_unchecked(&b) };
            let r = Cursor::try_from(s);
            let r_is_ok = r.is_ok();
            match r {
                Ok(c) => {
                    assert!($n > 0, "the empty string is not a cursor");
                    std::mem::forget(c);
                }
                Err(e) => {
                    std::mem::forget(e);
                }
            }
            // witnesses: at least one string of this length is rejected; for n > 0 one is accepted
            kani::cover!(r_is_ok == ($n > 0), "accepted (n > 0) / rejected (n = 0)");
            kani::cover!(!r_is_ok, "rejected");
        }
    };
}
ascii_str_harness!(cursor_str_total_len0, 0);
ascii_str_harness!(cursor_str_total_len1, 1);
ascii_str_harness!(cursor_str_total_len2, 2);
ascii_str_harness!(cursor_str_total_len3, 3);
ascii_str_harness!(cursor_str_total_len4, 4);

macro_rules! prefixed_str_harness {
    ($name:ident, $prefix:expr, $pn:expr, $n:expr) => {
        /// Cursor::try_from(&str) is total on a fixed multi-byte first character followed by any ASCII tail.
        #[kani::proof]
        #[kani::unwind(7)]
        fn $name() {
            let p: &[u8] = $prefix.as_bytes();
            let mut b: [u8; $pn + $n] = [0; $pn + $n];
            let mut i = 0;
            while i < $pn {
                b[i] = p[i];
                i += 1;
            }
            while i < $pn + $n {
                let x: u8 = kani::any();
                kani::assume(x < 0x80);
                b[i] = x;
                i += 1;
            }
            let s = unsafe { std::str::from_utf8_unchecked(&b) };
            let r = Cursor::try_from(s);
            kani::cover!(r.is_err(), "rejected");
            std::mem::forget(r);
        }
    };
}
prefixed_str_harness!(cursor_str_total_2byte_first_t0, "\u{e9}", 2, 0);
prefixed_str_harness!(cursor_str_total_2byte_first_t2, "\u{e9}", 2, 2);
prefixed_str_harness!(cursor_str_total_3byte_first_t1, "\u{20ac}", 3, 1);
prefixed_str_harness!(cursor_str_total_4byte_first_t1, "\u{10000}", 4, 1);

macro_rules! bytes_harness {
    ($name:ident, $n:expr) => {
        /// Cursor::try_from(&[u8]) is total on every input of this length (the actor copy is
        /// over-approximated: same length, arbitrary content).
        #[kani::proof]
        #[kani::unwind(12)]
        #[kani::stub(<crate::ActorId as std::convert::From<&[u8]>>::from, crate::types::verif_kani::stub_actor_from_slice)]
        fn $name() {
            let b: [u8; $n] = kani::any();
            let r = Cursor::try_from(&b[..]);
            match r {
                Ok(c) => {
                    // what was accepted re-encodes to a prefix-compatible length
                    let g = |i: usize| if i < $n { b[i] } else { 0xff };
                    match &c {
                        Cursor::Start => assert!(g(0) == 1 && g(1) == 1),
                        Cursor::End => assert!(g(0) == 1 && g(1) == 2),
                        Cursor::Op(o) => {
                            assert!(g(0) == 0 || (g(0) == 1 && g(1) == 3));
                            assert!(o.actor.to_bytes().len() + 3 <= $n);
                        }
                    }
                    kani::cover!(true, "accepted");
                    std::mem::forget(c);
                }
                Err(e) => {
                    kani::cover!(true, "rejected");
                    std::mem::forget(e);
                }
            }
        }
    };
}
bytes_harness!(cursor_bytes_total_len0, 0);
bytes_harness!(cursor_bytes_total_len1, 1);
bytes_harness!(cursor_bytes_total_len2, 2);
bytes_harness!(cursor_bytes_total_len3, 3);
bytes_harness!(cursor_bytes_total_len4, 4);
bytes_harness!(cursor_bytes_total_len5, 5);
bytes_harness!(cursor_bytes_total_len6, 6);
bytes_harness!(cursor_bytes_total_len8, 8);

/// Replaced (kani::stub) by types::verif_kani::actor_of_len (builds the ActorId in its private representation).
fn actor_of_len(len: usize) -> ActorId {
    ActorId::from(vec![0x5a; len])
}

fn put_varint14(out: &mut [u8], v: u64) -> usize {
    if v < 128 {
        out[0] = v as u8;
        1
    } else {
        out[0] = (v as u8 & 0x7f) | 0x80;
        out[1] = (v >> 7) as u8;
        2
    }
}

/// Cursor::to_bytes writes the documented framing: version 1, then start / end tag, or op tag,
/// uLEB(actor length), actor bytes, uLEB(counter), move tag (1 = before, 2 = after). Actor of L bytes
/// (both sides of the one/two-byte length prefix), counter ANY value below 2^14, both move modes.
fn cursor_framing<const L: usize>() {
    assert!(Cursor::Start.to_bytes() == vec![1u8, 1]);
    assert!(Cursor::End.to_bytes() == vec![1u8, 2]);
    let ctr: u64 = kani::any();
    kani::assume(ctr < (1 << 14));
    let before: bool = kani::any();
    let c = Cursor::Op(OpCursor {
        ctr,
        actor: actor_of_len(L),
        move_cursor: if before { MoveCursor::Before } else { MoveCursor::After },
    });
    let bytes = c.to_bytes();
    let mut want = [0u8; 160];
    want[0] = 1;
    want[1] = 3;
    let mut n = 2;
    n += put_varint14(&mut want[n..], L as u64);
    let actor_at = n;
    n += L;
    n += put_varint14(&mut want[n..], ctr);
    want[n] = if before { 1 } else { 2 };
    n += 1;
    assert!(bytes.len() == n);
    assert!(bytes[0] == 1 && bytes[1] == 3 && bytes[2] == want[2] && (actor_at < 4 || bytes[3] == want[3]));
    assert!(L == 0 || (bytes[actor_at] == 0x5a && bytes[actor_at + L - 1] == 0x5a));
    let mut i = actor_at + L;
    while i < n {
        assert!(bytes[i] == want[i]);
        i += 1;
    }
    kani::cover!(before && ctr >= 128);
    kani::cover!(!before && ctr < 128);
    std::mem::forget(bytes);
    std::mem::forget(c);
}

macro_rules! cursor_framing_harness {
    ($name:ident, $l:expr) => {
        #[kani::proof]
        #[kani::unwind(12)]
        #[kani::stub(actor_of_len, crate::types::verif_kani::actor_of_len)]
        fn $name() {
            cursor_framing::<$l>()
        }
    };
}
cursor_framing_harness!(cursor_bytes_framing_actor1, 1);
cursor_framing_harness!(cursor_bytes_framing_actor16, 16);
cursor_framing_harness!(cursor_bytes_framing_actor128, 128);

/// String form, writer side: Display of an element cursor is ["-" for Before] counter "@" actor-hex
/// (what Cursor::try_from(&str) reads back: cursor_str_* harnesses). Counter 0..=9, one-byte actor
/// of any value, both move modes.
#[kani::proof]
#[kani::unwind(8)]
fn cursor_display_format() {
    let ctr: u64 = kani::any();
    kani::assume(ctr < 10);
    let a: u8 = kani::any();
    let before: bool = kani::any();
    let c = Cursor::Op(OpCursor {
        ctr,
        actor: ActorId::from(&[a][..]),
        move_cursor: if before { MoveCursor::Before } else { MoveCursor::After },
    });
    let s = c.to_string();
    let b = s.as_bytes();
    let off = if before { 1 } else { 0 };
    assert!(b.len() == off + 4);
    assert!(!before || b[0] == b'-');
    assert!(b[off] == b'0' + ctr as u8);
    assert!(b[off + 1] == b'@');
    let hex = b"0123456789abcdef";
    assert!(b[off + 2] == hex[(a >> 4) as usize] && b[off + 3] == hex[(a & 15) as usize]);
    kani::cover!(before && a >= 0xa0);
    kani::cover!(!before);
    std::mem::forget(s);
    std::mem::forget(c);
}
