// harnesses for automerge/src/storage/columns/raw_column.rs
