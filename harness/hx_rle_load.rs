// harnesses for hexane/src/rle/load.rs
