// G-HEX-rle: the safety contract between load-time validation (rle_validate_encoding, the same
// try_next_segment + validate_after walk RleLoadIter / Column::load performs) and the UNCHECKED
// run decoder (RleDecoder::next / next_run, which unwrap and use from_utf8_unchecked).
// Child module of hexane::rle::load. C35, C39.
use super::*;
use crate::encoding::RunDecoder;
use crate::verif_kani::valid_utf8;

/// For EVERY byte string of length N: the validator never panics; and if it accepts, then the
/// unchecked decoder
///  - walks the slab run by run without panicking and ends exactly at the end of the runs,
///  - yields exactly `info.segments` runs whose counts add up to `info.len`, every count > 0,
///  - item by item (`next`) yields Some for the first min(len, N) items, and None right after the
///    last one when len <= N,
///  - and every value it hands out satisfies $check (for String: valid UTF-8 by the independent
///    validator, i.e. from_utf8_unchecked was only reached on validated bytes).
macro_rules! rle_contract {
    ($fname:ident, $t:ty, $b:ident, $info:ident, $v:ident, $check:expr, $cover:expr) => {
        fn $fname<const N: usize>() {
            let $b: [u8; N] = kani::any();
            let b = &$b;
            let mut accepted = false;
            let mut witnessed = false;
            match rle_validate_encoding::<$t, Leb128>(b) {
                Ok($info) => {
                    let mut d = RleDecoder::<$t, Leb128>::new(b);
                    let mut total: usize = 0;
                    let mut runs: usize = 0;
                    let mut k = 0;
                    // every run consumes at least one byte: N rounds reach the end
                    while k < N {
                        match d.next_run() {
                            Some(r) => {
                                assert!(r.count > 0);
                                total += r.count;
                                runs += 1;
                                let $v = r.value;
                                assert!($check);
                            }
                            None => break,
                        }
                        k += 1;
                    }
                    assert!(d.next_run().is_none());
                    assert_eq!(total, $info.len);
                    assert_eq!(runs, $info.segments);
                    assert!($info.len > 0 && $info.segments > 0);
                    assert!(d.pos() <= N);

                    let mut it = RleDecoder::<$t, Leb128>::new(b);
                    let mut i = 0;
                    while i < N && i < $info.len {
                        match it.next() {
                            Some($v) => assert!($check),
                            None => panic!("validated slab ended early"),
                        }
                        i += 1;
                    }
                    if $info.len <= N {
                        assert!(it.next().is_none());
                    }
                    accepted = true;
                    witnessed = $cover;
                }
                Err(e) => {
                    std::mem::forget(e);
                }
            }
            // a segment needs at least two bytes: every 1-byte slab is rejected
            if N < 2 {
                assert!(!accepted);
            }
            kani::cover!(N < 2 || accepted);
            kani::cover!(N < 2 || witnessed);
            kani::cover!(!accepted);
        }
    };
}

rle_contract!(contract_u64, u64, b, info, v, v == v, info.segments == N - 1);
rle_contract!(contract_opt_u64, Option<u64>, b, info, v, v.is_none() || v.is_some(), info.len > info.segments);
rle_contract!(contract_string, String, b, info, v, valid_utf8(v.as_bytes()), N < 3 || (info.segments == 1 && b[1] > 0));

macro_rules! fixed_len_harness {
    ($name:ident, $f:ident, $n:expr, $unwind:expr) => {
        #[kani::proof]
        #[kani::unwind($unwind)]
        fn $name() {
            $f::<$n>()
        }
    };
}
fixed_len_harness!(rle_contract_u64_len1, contract_u64, 1, 4);
fixed_len_harness!(rle_contract_u64_len2, contract_u64, 2, 5);
fixed_len_harness!(rle_contract_u64_len3, contract_u64, 3, 6);
fixed_len_harness!(rle_contract_u64_len4, contract_u64, 4, 7);
fixed_len_harness!(rle_contract_u64_len5, contract_u64, 5, 8);
fixed_len_harness!(rle_contract_opt_u64_len1, contract_opt_u64, 1, 4);
fixed_len_harness!(rle_contract_opt_u64_len2, contract_opt_u64, 2, 5);
fixed_len_harness!(rle_contract_opt_u64_len3, contract_opt_u64, 3, 6);
fixed_len_harness!(rle_contract_opt_u64_len4, contract_opt_u64, 4, 7);
fixed_len_harness!(rle_contract_opt_u64_len5, contract_opt_u64, 5, 8);
fixed_len_harness!(rle_contract_string_len1, contract_string, 1, 4);
fixed_len_harness!(rle_contract_string_len2, contract_string, 2, 5);
fixed_len_harness!(rle_contract_string_len3, contract_string, 3, 6);
fixed_len_harness!(rle_contract_string_len4, contract_string, 4, 7);
fixed_len_harness!(rle_contract_string_len5, contract_string, 5, 8);
