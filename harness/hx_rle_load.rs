// G-HEX-rle: the validator (rle_validate_encoding, what Column::load runs over untrusted bytes)
// against the UNCHECKED decoder (RleDecoder::next / nth, what every read uses afterwards:
// unwrap, unchecked slicing, from_utf8_unchecked). Child module of hexane::rle::load.
//
// The four Leb128 reads are stubbed with the reference readers of hx_root.rs, which
// codec_ref_equiv_len0..=6,10,11 prove equal to the real ones on every input of those lengths
// (assume-guarantee; it removes io::Error's drop glue, which made a 2-byte decode exceed 200 s).
use super::*;
use crate::rle::decoder::RleDecoder;
use crate::verif_kani::{same_bytes, valid_utf8};

const K: usize = 3;

trait Probe: RleValue {
    /// equality of two yielded items + the C39 obligation on each item
    fn same(a: Self::Get<'_>, b: Self::Get<'_>) -> bool;
    fn well_formed(a: Self::Get<'_>) -> bool;
}
impl Probe for u64 {
    fn same(a: u64, b: u64) -> bool {
        a == b
    }
    fn well_formed(_a: u64) -> bool {
        true
    }
}
impl Probe for Option<u64> {
    fn same(a: Option<u64>, b: Option<u64>) -> bool {
        a == b
    }
    fn well_formed(_a: Option<u64>) -> bool {
        true
    }
}
impl Probe for String {
    fn same(a: &str, b: &str) -> bool {
        same_bytes(a.as_bytes(), b.as_bytes())
    }
    fn well_formed(a: &str) -> bool {
        valid_utf8(a.as_bytes())
    }
}
impl Probe for Option<String> {
    fn same(a: Option<&str>, b: Option<&str>) -> bool {
        match (a, b) {
            (None, None) => true,
            (Some(x), Some(y)) => same_bytes(x.as_bytes(), y.as_bytes()),
            _ => false,
        }
    }
    fn well_formed(a: Option<&str>) -> bool {
        match a {
            Some(x) => valid_utf8(x.as_bytes()),
            None => true,
        }
    }
}

/// For EVERY N-byte slab: the validator returns Ok/Err without panicking; if it accepts, the
/// unchecked decoder walks the same bytes without panicking, yields exactly `len` items (the first
/// K are pulled) and every string it hands out is valid UTF-8 by the independent validator.
fn validate_then_decode<T: Probe, const N: usize>() {
    let b: [u8; N] = kani::any();
    match rle_validate_encoding::<T, Leb128>(&b) {
        Ok(info) => {
            assert!(info.segments <= N);
            let mut d = RleDecoder::<T, Leb128>::new(&b);
            let mut k = 0;
            while k < K {
                match d.next() {
                    Some(v) => {
                        assert!(k < info.len);
                        assert!(T::well_formed(v));
                    }
                    None => {
                        assert!(k == info.len);
                        break;
                    }
                }
                k += 1;
            }
            kani::cover!(N < 2 || info.len == 1);
            kani::cover!(N < 2 || info.len >= 2);
        }
        Err(e) => {
            kani::cover!(true);
            std::mem::forget(e);
        }
    }
}

/// The skipping read agrees with the stepping read: on EVERY accepted N-byte slab and every
/// k < K, `nth(k)` returns what k+1 calls of `next()` return (positional reads - get, advance_by,
/// seek - go through nth, which skips runs without decoding them).
fn nth_agrees_with_next<T: Probe, const N: usize>() {
    let b: [u8; N] = kani::any();
    if let Ok(info) = rle_validate_encoding::<T, Leb128>(&b) {
        let k: usize = kani::any();
        kani::assume(k < K);
        let mut d1 = RleDecoder::<T, Leb128>::new(&b);
        let mut d2 = RleDecoder::<T, Leb128>::new(&b);
        let mut last = None;
        let mut i = 0;
        while i <= k {
            last = d2.next();
            i += 1;
        }
        let jumped = d1.nth(k);
        match (jumped, last) {
            (None, None) => assert!(k >= info.len),
            (Some(x), Some(y)) => {
                assert!(k < info.len);
                assert!(T::same(x, y));
                assert!(T::well_formed(x));
            }
            _ => panic!("nth and next disagree on whether item k exists"),
        }
        // and both decoders continue identically
        match (d1.next(), d2.next()) {
            (None, None) => {}
            (Some(x), Some(y)) => assert!(T::same(x, y)),
            _ => panic!("decoders diverge after the jump"),
        }
        kani::cover!(N < 2 || (k > 0 && k < info.len));
        kani::cover!(N < 2 || k == 0);
    }
}

macro_rules! rle_harness {
    ($name:ident, $f:ident, $t:ty, $n:expr, $unwind:expr) => {
        #[kani::proof]
        #[kani::unwind($unwind)]
        #[kani::stub(alloc::fmt::format, crate::verif_kani::stub_format)]
        #[kani::stub(<crate::codec::Leb128 as crate::codec::Codec>::read_unsigned, crate::verif_kani::ref_read_unsigned)]
        #[kani::stub(<crate::codec::Leb128 as crate::codec::Codec>::read_signed, crate::verif_kani::ref_read_signed)]
        #[kani::stub(<crate::codec::Leb128 as crate::codec::Codec>::try_read_unsigned, crate::verif_kani::ref_try_read_unsigned)]
        #[kani::stub(<crate::codec::Leb128 as crate::codec::Codec>::try_read_signed, crate::verif_kani::ref_try_read_signed)]
        fn $name() {
            $f::<$t, $n>()
        }
    };
}
rle_harness!(rle_validate_then_decode_u64_len2, validate_then_decode, u64, 2, 6);
rle_harness!(rle_validate_then_decode_u64_len3, validate_then_decode, u64, 3, 7);
rle_harness!(rle_validate_then_decode_u64_len4, validate_then_decode, u64, 4, 8);
rle_harness!(rle_validate_then_decode_u64_len5, validate_then_decode, u64, 5, 9);
rle_harness!(rle_validate_then_decode_opt_u64_len2, validate_then_decode, Option<u64>, 2, 6);
rle_harness!(rle_validate_then_decode_opt_u64_len3, validate_then_decode, Option<u64>, 3, 7);
rle_harness!(rle_validate_then_decode_opt_u64_len4, validate_then_decode, Option<u64>, 4, 8);
// Not registered (measured on this machine, 16 cores shared): String / Option<String> slabs of 3-4 bytes
// and every nth_agrees_with_next rung ran past 1800 s or out of memory; the generic functions are kept
// so a faster machine can instantiate them:
// rle_harness!(rle_validate_then_decode_string_len3, validate_then_decode, String, 3, 7);
// rle_harness!(rle_nth_agrees_with_next_opt_u64_len5, nth_agrees_with_next, Option<u64>, 5, 9);
#[allow(dead_code)]
fn _keep_generic_instantiable() {
    let _ = nth_agrees_with_next::<u64, 2>;
    let _ = validate_then_decode::<String, 2>;
    let _ = validate_then_decode::<Option<String>, 2>;
}

/// The loader's per-slab bookkeeping (what RleLoadIter does for every segment of untrusted input:
/// `check_len` then `track`) must not overflow its item count: a null run carries ANY u64 count
/// from the wire and a repeat run any positive i64. Two segments as the decoder can hand them over.
/// (Before the fix: commit this was `track` alone, and the addition overflowed.)
#[kani::proof]
#[kani::unwind(4)]
fn rle_loader_item_count_no_overflow() {
    let c1: usize = kani::any();
    let c2: usize = kani::any();
    kani::assume(c1 >= 1);
    kani::assume(c2 >= 2 && c2 <= i64::MAX as usize);
    let v: u64 = kani::any();
    let mut cut = CutState::default();
    let s1 = RleSegment::<Option<u64>>::Null { count: c1, bytes: 11 };
    let s2 = RleSegment::<Option<u64>>::Run { count: c2, value: Some(v), bytes: 11 };
    let mut refused = false;
    match cut.check_len(&s1) {
        Ok(()) => {
            let _ = cut.track::<Option<u64>>(s1);
            match cut.check_len(&s2) {
                Ok(()) => {
                    let _ = cut.track::<Option<u64>>(s2);
                    assert!(cut.slab.len == c1 + c2 && cut.slab.segments == 2);
                }
                Err(e) => {
                    // refused exactly when the sum does not fit
                    assert!(c1.checked_add(c2).is_none());
                    refused = true;
                    std::mem::forget(e);
                }
            }
        }
        Err(e) => {
            std::mem::forget(e);
            panic!("a single run always fits an empty slab");
        }
    }
    kani::cover!(refused);
    kani::cover!(!refused && c1 == 1);
    std::mem::forget(cut);
}

/// A run header written as a 10-byte signed varint of ANY value (so also i64::MIN and its
/// neighbours), followed by two arbitrary bytes: the validator and the unchecked decoder's
/// advance must answer without arithmetic overflow - negating a literal-run count taken from the
/// wire must not overflow.
#[kani::proof]
#[kani::unwind(13)]
#[kani::stub(alloc::fmt::format, crate::verif_kani::stub_format)]
#[kani::stub(<crate::codec::Leb128 as crate::codec::Codec>::read_unsigned, crate::verif_kani::ref_read_unsigned)]
#[kani::stub(<crate::codec::Leb128 as crate::codec::Codec>::read_signed, crate::verif_kani::ref_read_signed)]
#[kani::stub(<crate::codec::Leb128 as crate::codec::Codec>::try_read_unsigned, crate::verif_kani::ref_try_read_unsigned)]
#[kani::stub(<crate::codec::Leb128 as crate::codec::Codec>::try_read_signed, crate::verif_kani::ref_try_read_signed)]
fn rle_ten_byte_run_header_total() {
    let mut b: [u8; 12] = kani::any();
    let mut i = 0;
    while i < 9 {
        b[i] |= 0x80;
        i += 1;
    }
    kani::assume(b[9] == 0x00 || b[9] == 0x7f);
    let r = rle_validate_encoding::<u64, Leb128>(&b);
    kani::cover!(r.is_err());
    std::mem::forget(r);
    let mut d = RleDecoder::<u64, Leb128>::new(&b);
    let seg = d.try_next_segment();
    kani::cover!(matches!(seg, Ok(Some(RleSegment::LitHead { .. }))));
    kani::cover!(matches!(seg, Ok(Some(RleSegment::Run { .. }))));
    std::mem::forget(seg);
}
