// harnesses for hexane/src/rle/decoder.rs
