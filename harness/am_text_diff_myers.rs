// harnesses for automerge/src/text_diff/myers.rs
