// harnesses for automerge/src/storage/chunk.rs
