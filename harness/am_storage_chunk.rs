// G-CHUNK: chunk framing and checksum comparison (child module of automerge::storage::chunk).
use super::*;
use crate::storage::parse::{Input, ParseError, Split};

/// SHA-256 is replaced by a function returning an arbitrary hash: every value the real function
/// could return is included, so what is proved holds for the real one too.
fn stub_hash(_typ: ChunkType, _data: &[u8]) -> ChangeHash {
    ChangeHash(kani::any())
}

fn any_chunk_type() -> ChunkType {
    let t: u8 = kani::any();
    kani::assume(t <= 3);
    ChunkType::try_from(t).unwrap()
}

/// Header::parse is total on every N-byte input; what it accepts is well framed: the magic bytes
/// are exact, the type is known, the header is 10..=N bytes long and the announced data lies
/// entirely inside the input; the returned input sits right after the header.
fn header_total<const N: usize>() {
    let bytes: [u8; N] = kani::any();
    match Header::parse::<error::Header>(Input::new(&bytes)) {
        Ok((rest, h)) => {
            assert!(bytes[0] == 0x85 && bytes[1] == 0x6f && bytes[2] == 0x4a && bytes[3] == 0x83);
            assert!(bytes[8] <= 3);
            assert_eq!(u8::from(h.chunk_type), bytes[8]);
            assert!(h.header_size >= 10 && h.header_size <= N);
            assert!(h.data_bytes().start == h.header_size);
            assert!(h.data_bytes().end <= N);
            assert_eq!(h.data_bytes().len(), h.data_len);
            assert_eq!(rest.unconsumed_bytes().len(), N - h.header_size);
            assert_eq!(h.len(), h.header_size);
            let c = h.checksum().bytes();
            assert!(c[0] == bytes[4] && c[1] == bytes[5] && c[2] == bytes[6] && c[3] == bytes[7]);
            kani::cover!(N == 10 || (h.data_len > 0 && h.data_bytes().end == N));
            kani::cover!(h.data_len == 0);
            // a 2-byte length needs >= 128 data bytes or an overlong encoding, which is rejected
            assert!(N >= 139 || h.header_size == 10);
        }
        Err(ParseError::Incomplete(_)) => {
            kani::cover!(bytes[0] == 0x85 && bytes[8] == 1);
        }
        Err(ParseError::Error(e)) => {
            match e {
                error::Header::InvalidMagicBytes => {
                    assert!(!(bytes[0] == 0x85 && bytes[1] == 0x6f && bytes[2] == 0x4a && bytes[3] == 0x83))
                }
                error::Header::UnknownChunkType(t) => assert!(t > 3 && t == bytes[8]),
                error::Header::Leb128(_) => {}
            }
            std::mem::forget(e);
        }
    }
}

macro_rules! header_total_harness {
    ($name:ident, $n:expr) => {
        #[kani::proof]
        #[kani::unwind(12)]
        #[kani::stub(crate::storage::chunk::hash, stub_hash)]
        fn $name() {
            header_total::<$n>()
        }
    };
}
header_total_harness!(chunk_header_total_len10, 10);
header_total_harness!(chunk_header_total_len11, 11);
header_total_harness!(chunk_header_total_len12, 12);
header_total_harness!(chunk_header_total_len14, 14);
header_total_harness!(chunk_header_total_len20, 20);

/// Inputs shorter than the smallest header never parse.
#[kani::proof]
#[kani::unwind(12)]
#[kani::stub(crate::storage::chunk::hash, stub_hash)]
fn chunk_header_short_inputs_rejected() {
    let bytes: [u8; 9] = kani::any();
    let n: usize = kani::any();
    kani::assume(n <= 9);
    let r = Header::parse::<error::Header>(Input::new(&bytes[..n]));
    assert!(r.is_err());
    if bytes[0] == 0x85 && bytes[1] == 0x6f && bytes[2] == 0x4a && bytes[3] == 0x83 && bytes[8] <= 3 {
        assert!(matches!(r, Err(ParseError::Incomplete(_))));
        kani::cover!(n == 9);
    }
    kani::cover!(n == 0);
    std::mem::forget(r);
}

/// Truncation: if a 14-byte buffer starts with an accepted chunk that ends at `total`, then every
/// strict prefix shorter than `total` is rejected as incomplete, never parsed as a shorter chunk.
#[kani::proof]
#[kani::unwind(12)]
#[kani::stub(crate::storage::chunk::hash, stub_hash)]
fn chunk_truncation_rejected() {
    let bytes: [u8; 14] = kani::any();
    if let Ok((_, h)) = Header::parse::<error::Header>(Input::new(&bytes)) {
        let total = h.header_size + h.data_len;
        assert!(total <= 14);
        let cut: usize = kani::any();
        kani::assume(cut < total);
        let r = Header::parse::<error::Header>(Input::new(&bytes[..cut]));
        assert!(matches!(r, Err(ParseError::Incomplete(_))));
        // and the whole chunk alone (no trailing bytes) parses to the same framing
        match Header::parse::<error::Header>(Input::new(&bytes[..total])) {
            Ok((_, h2)) => {
                assert!(h2.header_size == h.header_size && h2.data_len == h.data_len);
                assert!(h2.chunk_type == h.chunk_type && h2.checksum == h.checksum);
            }
            Err(_) => panic!("exact chunk must parse"),
        }
        kani::cover!(cut == total - 1 && h.data_len == 4);
        kani::cover!(cut == 10 && h.data_len == 1);
        std::mem::forget(r);
    }
}

/// Header::write then Header::parse gives back type, length, header size and checksum, and leaves
/// exactly the bytes that followed the chunk (data of D bytes, 2 trailing bytes).
fn write_parse_roundtrip<const D: usize>() {
    let data = [0x5au8; D];
    let ct = any_chunk_type();
    let h = Header::new(ct, &data);
    let mut out = Vec::new();
    h.write(&mut out);
    assert_eq!(out.len(), h.len());
    out.extend_from_slice(&data);
    let t0: u8 = kani::any();
    let t1: u8 = kani::any();
    out.push(t0);
    out.push(t1);
    match Header::parse::<error::Header>(Input::new(&out)) {
        Ok((i, p)) => {
            assert!(p.chunk_type == ct);
            assert_eq!(p.data_len, D);
            assert_eq!(p.header_size, h.header_size);
            assert!(p.checksum == h.checksum);
            assert_eq!(p.data_bytes(), h.data_bytes());
            // the walk over concatenated chunks (Chunk::parse + load_changes): split, then reset
            let Split { first, remaining } = i.split(p.data_bytes().len());
            assert_eq!(first.unconsumed_bytes().len(), D);
            let next = remaining.reset();
            assert_eq!(next.unconsumed_bytes().len(), 2);
            assert!(next.unconsumed_bytes()[0] == t0 && next.unconsumed_bytes()[1] == t1);
            assert_eq!(next.bytes().len(), 2);
            kani::cover!(true);
        }
        Err(_) => panic!("a header we wrote must parse"),
    }
    std::mem::forget(out);
}

macro_rules! roundtrip_harness {
    ($name:ident, $d:expr, $unwind:expr) => {
        #[kani::proof]
        #[kani::unwind($unwind)]
        #[kani::stub(crate::storage::chunk::hash, stub_hash)]
        fn $name() {
            write_parse_roundtrip::<$d>()
        }
    };
}
roundtrip_harness!(chunk_header_roundtrip_d0, 0, 12);
roundtrip_harness!(chunk_header_roundtrip_d1, 1, 12);
roundtrip_harness!(chunk_header_roundtrip_d3, 3, 12);
roundtrip_harness!(chunk_header_roundtrip_d200, 200, 12);

/// The checksum comparison looks at all 32 stored bits: valid iff the four stored bytes equal the
/// first four hash bytes; flipping any one stored bit of a valid checksum makes it invalid. Holds
/// for every hash value (the hash is a free variable here).
#[kani::proof]
#[kani::unwind(34)] // ChangeHash == is a 32-byte memcmp
fn chunk_checksum_compares_all_32_bits() {
    let hash = ChangeHash(kani::any());
    let stored: [u8; 4] = kani::any();
    let h = Header {
        checksum: CheckSum::from(stored),
        chunk_type: any_chunk_type(),
        data_len: kani::any(),
        header_size: kani::any(),
        hash,
    };
    let want = stored[0] == hash.0[0] && stored[1] == hash.0[1] && stored[2] == hash.0[2] && stored[3] == hash.0[3];
    assert_eq!(h.checksum_valid(), want);
    assert!(h.hash() == hash);
    let bit: u8 = kani::any();
    kani::assume(bit < 32);
    let mut flipped = stored;
    flipped[(bit / 8) as usize] ^= 1 << (bit % 8);
    let h2 = Header { checksum: CheckSum::from(flipped), ..h.clone() };
    if want {
        assert!(!h2.checksum_valid());
    }
    // a checksum derived from a hash is its first four bytes
    let c = CheckSum::from(hash);
    assert!(c.bytes()[0] == hash.0[0] && c.bytes()[3] == hash.0[3] && c.bytes()[1] == hash.0[1] && c.bytes()[2] == hash.0[2]);
    kani::cover!(want && bit == 31);
    kani::cover!(!want && h2.checksum_valid());
}

/// Any single-bit corruption of the magic bytes or an unknown type byte makes the header fail,
/// whatever the rest of the chunk is.
#[kani::proof]
#[kani::unwind(12)]
#[kani::stub(crate::storage::chunk::hash, stub_hash)]
fn chunk_magic_and_type_corruption_rejected() {
    let mut bytes: [u8; 12] = kani::any();
    bytes[0] = 0x85;
    bytes[1] = 0x6f;
    bytes[2] = 0x4a;
    bytes[3] = 0x83;
    let bit: u8 = kani::any();
    kani::assume(bit < 32);
    let mut bad = bytes;
    bad[(bit / 8) as usize] ^= 1 << (bit % 8);
    let r = Header::parse::<error::Header>(Input::new(&bad));
    assert!(matches!(r, Err(ParseError::Error(error::Header::InvalidMagicBytes))));
    if bytes[8] > 3 {
        let r2 = Header::parse::<error::Header>(Input::new(&bytes));
        assert!(matches!(r2, Err(ParseError::Error(error::Header::UnknownChunkType(_)))));
        std::mem::forget(r2);
    }
    kani::cover!(bytes[8] > 3);
    kani::cover!(bit == 0);
    std::mem::forget(r);
}

/// ChunkType <-> u8 is a bijection on 0..=3 and rejects everything else.
#[kani::proof]
fn chunk_type_codes() {
    let t: u8 = kani::any();
    match ChunkType::try_from(t) {
        Ok(ct) => {
            assert!(t <= 3);
            assert_eq!(u8::from(ct), t);
        }
        Err(e) => assert!(t > 3 && e == t),
    }
    kani::cover!(t == 3);
    kani::cover!(t == 4);
}

/// A real `Change` value around a given header (the queue, the graph and Chunk::checksum_valid read
/// only header-level fields; the op columns are empty).
#[allow(dead_code)]
pub(crate) fn change_with_header(header: Header) -> crate::storage::Change<'static, crate::storage::change::Unverified> {
    crate::storage::Change {
        bytes: std::borrow::Cow::Borrowed(&[]),
        header,
        dependencies: Vec::new(),
        actor: crate::ActorId::from(&[1u8][..]),
        other_actors: Vec::new(),
        seq: 1,
        start_op: std::num::NonZeroU64::new(1).unwrap(),
        timestamp: 0,
        message: None,
        ops_meta: crate::storage::change::ChangeOpsColumns::from(crate::op_set2::change::ChangeOpsColumns::default()),
        ops_data: 0..0,
        extra_bytes: 0..0,
        num_ops: 0,
        _phantom: std::marker::PhantomData,
    }
}

// Change::verify_ops (start_op must fit the 32-bit op counter) cannot be harnessed: iter_ops trips the
// Kani 0.68 internal compiler error at kani-compiler/src/intrinsics.rs:243, which aborts the whole crate.

/// A compressed change chunk is valid only if the checksum stored in the OUTER (compressed) header
/// equals the checksum of the inflated change AND that checksum matches the hash of the inflated
/// change: Chunk::checksum_valid on CompressedChange, for every hash, every pair of stored checksums.
#[kani::proof]
#[kani::unwind(18)]
fn chunk_compressed_change_checksum_both_levels() {
    let hash = ChangeHash(kani::any());
    let inner: [u8; 4] = kani::any();
    let outer: [u8; 4] = kani::any();
    let h = Header {
        checksum: CheckSum::from(inner),
        chunk_type: ChunkType::Change,
        data_len: kani::any(),
        header_size: kani::any(),
        hash,
    };
    let change = change_with_header(h);
    let compressed = crate::storage::change::Compressed::new(CheckSum::from(outer), std::borrow::Cow::Borrowed(&[]));
    let chunk = Chunk::CompressedChange(change, compressed);
    let inner_ok = inner[0] == hash.0[0] && inner[1] == hash.0[1] && inner[2] == hash.0[2] && inner[3] == hash.0[3];
    let same = inner[0] == outer[0] && inner[1] == outer[1] && inner[2] == outer[2] && inner[3] == outer[3];
    let v = chunk.checksum_valid();
    assert_eq!(v, inner_ok && same);
    kani::cover!(v);
    kani::cover!(same && !inner_ok);
    kani::cover!(inner_ok && !same);
    std::mem::forget(chunk);
}

/// A real verified `storage::Change` with chosen hash, actor, seq and dependencies (no ops): what
/// the causal queue, the batch and the change graph read from a change.
#[allow(dead_code)]
pub(crate) fn stored_change(hash: ChangeHash, actor: crate::ActorId, seq: u64, deps: Vec<ChangeHash>) -> crate::storage::Change<'static, crate::storage::change::Verified> {
    crate::storage::Change {
        bytes: std::borrow::Cow::Borrowed(&[]),
        header: Header { checksum: CheckSum::from(hash), chunk_type: ChunkType::Change, data_len: 0, header_size: 10, hash },
        dependencies: deps,
        actor,
        other_actors: Vec::new(),
        seq,
        start_op: std::num::NonZeroU64::new(1).unwrap(),
        timestamp: 0,
        message: None,
        ops_meta: crate::storage::change::ChangeOpsColumns::from(crate::op_set2::change::ChangeOpsColumns::default()),
        ops_data: 0..0,
        extra_bytes: 0..0,
        num_ops: 0,
        _phantom: std::marker::PhantomData,
    }
}

static BIG: [u8; 1 << 22] = [0; 1 << 22];

fn ref_uleb_len(mut v: u64) -> usize {
    let mut n = 1;
    while v >= 128 {
        v >>= 7;
        n += 1;
    }
    n
}

/// Header::new for a chunk of ANY data length up to 4 MiB (every LEB128 width boundary up to 3 -> 4 bytes) (the data itself is never read: SHA-256 is
/// stubbed): the header length it announces - what Document::new and Chunk::parse use as offsets -
/// is 4 magic + 4 checksum + 1 type + the LEB128 length of the data length, and Header::write emits
/// exactly that many bytes ending in that LEB128.
#[kani::proof]
#[kani::unwind(7)]
#[kani::stub(crate::storage::chunk::hash, stub_hash)]
fn chunk_header_new_any_data_len() {
    let n: usize = kani::any();
    kani::assume(n <= (1 << 22));
    header_new_body(n, any_chunk_type());
}

fn header_new_body(n: usize, ct: ChunkType) {
    let h = Header::new(ct, &BIG[..n]);
    assert!(h.data_len == n);
    assert!(h.header_size == 9 + ref_uleb_len(n as u64));
    assert!(h.len() == h.header_size);
    assert!(h.data_bytes() == (h.header_size..h.header_size + n));
    let mut out = Vec::new();
    h.write(&mut out);
    assert!(out.len() == h.header_size);
    kani::cover!(n == (1 << 21));
    kani::cover!(n == 0x3f_ffff);
    std::mem::forget(out);
}

/// Native replay grid for chunk_header_new_any_data_len (CBMC's trace over the 4 MiB array is too
/// slow for Kani to emit a playback test in time): the same body at every LEB128 width boundary.
#[test]
fn replay_grid_chunk_header_new() {
    for n in [0usize, 1, 127, 128, 16383, 16384, 20000, 32767, 32768, (1 << 21) - 1, 1 << 21, (1 << 21) + 1, 3 << 20, 1 << 22] {
        header_new_body(n, ChunkType::Document);
        header_new_body(n, ChunkType::Change);
    }
}
