// harnesses for automerge/src/change_queue.rs
