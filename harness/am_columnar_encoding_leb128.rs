// harnesses for automerge/src/columnar/encoding/leb128.rs
