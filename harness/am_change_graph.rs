// Helpers for harnesses that need a ChangeGraph in which some hashes count as applied
// (child module of automerge::change_graph).
use super::*;

/// ChangeGraph::new(0) with the given hashes registered as applied nodes. Only `has_change` is
/// meaningful on the result (what ChangeQueue::pop_topo_sorted_ready reads).
#[allow(dead_code)]
pub(crate) fn graph_with_applied(applied: &[ChangeHash]) -> ChangeGraph {
    let mut g = ChangeGraph::new(0);
    let mut i = 0;
    while i < applied.len() {
        g.nodes_by_hash.insert(applied[i], NodeIdx(i as u32));
        i += 1;
    }
    g
}
