// harnesses for automerge/src/change_graph.rs (G-HEADS: BTreeSet<ChangeHash> insert/collect/== over 2-3 hashes did not finish in 900 s; not built)
