// harnesses for automerge/src/change_graph.rs
