// harnesses for automerge/src/storage/parse/leb128.rs
