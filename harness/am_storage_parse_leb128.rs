// G-LEB: LEB128 parsers (child module of automerge::storage::parse::leb128).
use super::*;
use crate::storage::parse::Needed;

// Reference encoders written from the LEB128 definition (independent of the `leb128` crate).
fn ref_uleb(mut v: u64, out: &mut [u8; 10]) -> usize {
    let mut n = 0;
    loop {
        let b = (v & 0x7f) as u8;
        v >>= 7;
        if v == 0 {
            out[n] = b;
            return n + 1;
        }
        out[n] = b | 0x80;
        n += 1;
    }
}

fn ref_sleb(mut v: i64, out: &mut [u8; 10]) -> usize {
    let mut n = 0;
    loop {
        let b = (v & 0x7f) as u8;
        v >>= 7; // arithmetic
        let done = (v == 0 && b & 0x40 == 0) || (v == -1 && b & 0x40 != 0);
        if done {
            out[n] = b;
            return n + 1;
        }
        out[n] = b | 0x80;
        n += 1;
    }
}

/// parse(encode(v)) = v and consumes exactly the encoding, for every u64.
#[kani::proof]
#[kani::unwind(12)]
fn leb_u64_roundtrip_all_values() {
    let v: u64 = kani::any();
    let mut buf = [0u8; 10];
    let n = ref_uleb(v, &mut buf);
    match leb128_u64::<Error>(Input::new(&buf[..n])) {
        Ok((rest, got)) => {
            assert_eq!(got, v);
            assert!(rest.is_empty());
        }
        Err(_) => panic!("canonical encoding rejected"),
    }
    // what the repository's own writer (the leb128 crate) produces is that same encoding
    let mut w = [0u8; 10];
    let mut cur = &mut w[..];
    let wn = ::leb128::write::unsigned(&mut cur, v).unwrap();
    assert_eq!(wn, n);
    let mut k = 0;
    while k < 10 {
        if k < n {
            assert_eq!(w[k], buf[k]);
        }
        k += 1;
    }
    assert_eq!(crate::columnar::encoding::leb128::ulebsize(v), n as u64);
    kani::cover!(n == 10);
    kani::cover!(n == 1);
}

#[kani::proof]
#[kani::unwind(12)]
fn leb_i64_roundtrip_all_values() {
    let v: i64 = kani::any();
    let mut buf = [0u8; 10];
    let n = ref_sleb(v, &mut buf);
    match leb128_i64::<Error>(Input::new(&buf[..n])) {
        Ok((rest, got)) => {
            assert_eq!(got, v);
            assert!(rest.is_empty());
        }
        Err(_) => panic!("canonical encoding rejected"),
    }
    let mut w = [0u8; 10];
    let mut cur = &mut w[..];
    let wn = ::leb128::write::signed(&mut cur, v).unwrap();
    assert_eq!(wn, n);
    let mut k = 0;
    while k < 10 {
        if k < n {
            assert_eq!(w[k], buf[k]);
        }
        k += 1;
    }
    assert_eq!(crate::columnar::encoding::leb128::lebsize(v), n as u64);
    kani::cover!(n == 10 && v < 0);
    kani::cover!(n == 1 && v < 0);
    kani::cover!(n == 10 && v > 0);
}

/// Total on every N-byte input; whatever is accepted is the canonical (shortest) encoding of the
/// value returned, so no two byte strings of the same length decode to the same value, and at
/// most 10 bytes are consumed.
fn u64_total<const N: usize>() {
    let bytes: [u8; N] = kani::any();
    match leb128_u64::<Error>(Input::new(&bytes)) {
        Ok((rest, v)) => {
            let used = N - rest.unconsumed_bytes().len();
            assert!(used >= 1 && used <= 10);
            let mut buf = [0u8; 10];
            let n = ref_uleb(v, &mut buf);
            assert_eq!(n, used);
            let mut k = 0;
            while k < N && k < 10 {
                if k < n {
                    assert_eq!(buf[k], bytes[k]);
                }
                k += 1;
            }
            kani::cover!(used == N || N > 10);
            kani::cover!(used == 1);
        }
        Err(ParseError::Incomplete(Needed::Size(k))) => {
            // only when every byte carries the continuation bit and fewer than 10 were available
            assert!(N < 10);
            assert_eq!(k.get(), 1);
            let mut i = 0;
            while i < N {
                assert!(bytes[i] & 0x80 != 0);
                i += 1;
            }
        }
        Err(ParseError::Incomplete(Needed::Unknown)) => panic!("never produced"),
        Err(ParseError::Error(e)) => {
            assert!(e == Error::Leb128TooLarge || e == Error::Leb128Overlong);
            kani::cover!(e == Error::Leb128Overlong);
        }
    }
}

fn i64_total<const N: usize>() {
    let bytes: [u8; N] = kani::any();
    match leb128_i64::<Error>(Input::new(&bytes)) {
        Ok((rest, v)) => {
            let used = N - rest.unconsumed_bytes().len();
            assert!(used >= 1 && used <= 10);
            let mut buf = [0u8; 10];
            let n = ref_sleb(v, &mut buf);
            assert_eq!(n, used);
            let mut k = 0;
            while k < N && k < 10 {
                if k < n {
                    assert_eq!(buf[k], bytes[k]);
                }
                k += 1;
            }
            kani::cover!(v < 0 && (used == N || N > 10));
            kani::cover!(v >= 0 && used == 1);
        }
        Err(ParseError::Incomplete(_)) => {
            assert!(N < 10);
        }
        Err(ParseError::Error(e)) => {
            assert!(e == Error::Leb128TooLarge || e == Error::Leb128Overlong);
            kani::cover!(e == Error::Leb128Overlong);
        }
    }
}

macro_rules! total_harness {
    ($name:ident, $f:ident, $n:expr) => {
        #[kani::proof]
        #[kani::unwind(12)]
        fn $name() {
            $f::<$n>()
        }
    };
}
total_harness!(leb_u64_total_len2, u64_total, 2);
total_harness!(leb_u64_total_len3, u64_total, 3);
total_harness!(leb_u64_total_len9, u64_total, 9);
total_harness!(leb_u64_total_len10, u64_total, 10);
total_harness!(leb_u64_total_len11, u64_total, 11);
total_harness!(leb_i64_total_len2, i64_total, 2);
total_harness!(leb_i64_total_len3, i64_total, 3);
total_harness!(leb_i64_total_len10, i64_total, 10);
total_harness!(leb_i64_total_len11, i64_total, 11);

/// The u32 and non-zero variants accept exactly the u64 results that fit / are non-zero.
#[kani::proof]
#[kani::unwind(12)]
fn leb_u32_and_nonzero_variants() {
    let bytes: [u8; 6] = kani::any();
    let base = leb128_u64::<Error>(Input::new(&bytes));
    let r32 = leb128_u32::<Error>(Input::new(&bytes));
    let rnz = nonzero_leb128_u64::<Error>(Input::new(&bytes));
    match base {
        Ok((rest, v)) => {
            if v <= u32::MAX as u64 {
                match r32 {
                    Ok((r2, w)) => {
                        assert_eq!(w as u64, v);
                        assert_eq!(r2.unconsumed_bytes().len(), rest.unconsumed_bytes().len());
                    }
                    Err(_) => panic!("fits in u32 but rejected"),
                }
            } else {
                assert!(matches!(r32, Err(ParseError::Error(Error::Leb128TooLarge))));
            }
            if v != 0 {
                match rnz {
                    Ok((_, w)) => assert_eq!(w.get(), v),
                    Err(_) => panic!("non-zero rejected"),
                }
            } else {
                assert!(matches!(rnz, Err(ParseError::Error(Error::UnexpectedZero))));
            }
            kani::cover!(v > u32::MAX as u64);
            kani::cover!(v == 0);
            kani::cover!(v == u32::MAX as u64);
        }
        Err(_) => {
            assert!(r32.is_err() && rnz.is_err());
            kani::cover!(true);
        }
    }
}
