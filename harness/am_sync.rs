// G-SYNCENC (flags part): sync message flags on the wire (child module of automerge::sync).
// Included by /repo/rust/automerge/src/sync.rs under cfg(kani).
use super::*;

const ALL: [u8; 3] = [MessageFlags::SYNC_RESET, MessageFlags::READ_ONLY, MessageFlags::SUPPORTS_SYNC_RESET];

/// Every subset of the 7 flag bits survives encode -> length-prefixed section -> parse_bytes, the
/// legacy 0x02 byte in front contributes nothing, and the three named flags are independent.
#[kani::proof]
#[kani::unwind(6)]
fn flags_encode_parse_roundtrip() {
    let bits: u8 = kani::any();
    kani::assume(bits < 0x80);
    let mut f = MessageFlags::new();
    assert!(f.0 == 0);
    f.set(bits);
    assert!(f.0 == bits);
    let mut out = Vec::new();
    f.encode(&mut out);
    assert!(out.len() == 3);
    assert!(out[0] == 2 && out[1] == 0x02 && out[2] == (0x80 | bits));
    // the section is read back the way Message::parse does it
    let input = parse::Input::new(&out);
    let (rest, raw) = match parse::length_prefixed_bytes::<ReadMessageError>(input) {
        Ok(x) => x,
        Err(_) => panic!("flags section must parse"),
    };
    assert!(rest.is_empty());
    assert!(raw.len() == 2);
    let g = MessageFlags::parse_bytes(raw);
    assert!(g.0 == bits);
    assert!(g == f);
    let mut i = 0;
    while i < 3 {
        assert_eq!(g.contains(ALL[i]), bits & ALL[i] != 0);
        i += 1;
    }
    kani::cover!(g.contains(MessageFlags::READ_ONLY) && !g.contains(MessageFlags::SYNC_RESET));
    kani::cover!(bits == 0);
    std::mem::forget(out);
}

/// parse_bytes over EVERY 3-byte flags section: total; the result is the union of the low 7 bits
/// of the marker bytes (high bit set); legacy bytes (high bit clear) never set a flag.
#[kani::proof]
#[kani::unwind(6)]
fn flags_parse_any_section_len3() {
    let b: [u8; 3] = kani::any();
    let g = MessageFlags::parse_bytes(&b);
    let mut exp = 0u8;
    let mut i = 0;
    while i < 3 {
        if b[i] >= 0x80 {
            exp |= b[i] & 0x7f;
        }
        i += 1;
    }
    assert!(g.0 == exp);
    assert!(g.0 < 0x80);
    let mut i = 0;
    while i < 3 {
        assert_eq!(g.contains(ALL[i]), exp & ALL[i] != 0);
        i += 1;
    }
    if b[0] < 0x80 && b[1] < 0x80 && b[2] < 0x80 {
        assert!(g == MessageFlags::new());
    }
    kani::cover!(b[0] < 0x80 && b[1] >= 0x80 && g.contains(MessageFlags::READ_ONLY));
    kani::cover!(g == MessageFlags::new() && b[0] == 0x02);
}

// Message::decode totality (first byte fixed to a message type, 0..7 further symbolic bytes) was
// written and dropped: every rung, including the 1-byte input that fails at the first length prefix,
// exceeded 900 s (the cost is constant: the ReadMessageError / Message types, not the input).
