// G-SYNCENC (flags part): sync message flags on the wire (child module of automerge::sync).
// Included by /repo/rust/automerge/src/sync.rs under cfg(kani).
use super::*;

const ALL: [u8; 3] = [MessageFlags::SYNC_RESET, MessageFlags::READ_ONLY, MessageFlags::SUPPORTS_SYNC_RESET];

/// Every subset of the 7 flag bits survives encode -> length-prefixed section -> parse_bytes, the
/// legacy 0x02 byte in front contributes nothing, and the three named flags are independent.
#[kani::proof]
#[kani::unwind(6)]
fn flags_encode_parse_roundtrip() {
    let bits: u8 = kani::any();
    kani::assume(bits < 0x80);
    let mut f = MessageFlags::new();
    assert!(f.0 == 0);
    f.set(bits);
    assert!(f.0 == bits);
    let mut out = Vec::new();
    f.encode(&mut out);
    assert!(out.len() == 3);
    assert!(out[0] == 2 && out[1] == 0x02 && out[2] == (0x80 | bits));
    // the section is read back the way Message::parse does it
    let input = parse::Input::new(&out);
    let (rest, raw) = match parse::length_prefixed_bytes::<ReadMessageError>(input) {
        Ok(x) => x,
        Err(_) => panic!("flags section must parse"),
    };
    assert!(rest.is_empty());
    assert!(raw.len() == 2);
    let g = MessageFlags::parse_bytes(raw);
    assert!(g.0 == bits);
    assert!(g == f);
    let mut i = 0;
    while i < 3 {
        assert_eq!(g.contains(ALL[i]), bits & ALL[i] != 0);
        i += 1;
    }
    kani::cover!(g.contains(MessageFlags::READ_ONLY) && !g.contains(MessageFlags::SYNC_RESET));
    kani::cover!(bits == 0);
    std::mem::forget(out);
}

/// parse_bytes over EVERY 3-byte flags section: total; the result is the union of the low 7 bits
/// of the marker bytes (high bit set); legacy bytes (high bit clear) never set a flag.
#[kani::proof]
#[kani::unwind(6)]
fn flags_parse_any_section_len3() {
    let b: [u8; 3] = kani::any();
    let g = MessageFlags::parse_bytes(&b);
    let mut exp = 0u8;
    let mut i = 0;
    while i < 3 {
        if b[i] >= 0x80 {
            exp |= b[i] & 0x7f;
        }
        i += 1;
    }
    assert!(g.0 == exp);
    assert!(g.0 < 0x80);
    let mut i = 0;
    while i < 3 {
        assert_eq!(g.contains(ALL[i]), exp & ALL[i] != 0);
        i += 1;
    }
    if b[0] < 0x80 && b[1] < 0x80 && b[2] < 0x80 {
        assert!(g == MessageFlags::new());
    }
    kani::cover!(b[0] < 0x80 && b[1] >= 0x80 && g.contains(MessageFlags::READ_ONLY));
    kani::cover!(g == MessageFlags::new() && b[0] == 0x02);
}

/// Message::encode framing, no Have / no changes: [version byte, 1, head(32), n_need=0, n_have=0,
/// n_changes=0] followed by the flags section iff flags are present. Any version, any 256-bit head,
/// any flag subset or none. Compared by index (no parser in the loop).
#[kani::proof]
#[kani::unwind(34)]
fn message_encode_framing_1head() {
    let hb: [u8; 32] = kani::any();
    let v2: bool = kani::any();
    let has_flags: bool = kani::any();
    let bits: u8 = kani::any();
    kani::assume(bits < 0x80);
    let mut f = MessageFlags::new();
    f.set(bits);
    let m = Message {
        heads: vec![ChangeHash(hb)],
        need: Vec::new(),
        have: Vec::new(),
        changes: ChunkList::empty(),
        flags: if has_flags { Some(f) } else { None },
        version: if v2 { MessageVersion::V2 } else { MessageVersion::V1 },
    };
    let out = m.encode();
    assert!(out.len() == if has_flags { 40 } else { 37 });
    assert!(out[0] == if v2 { MESSAGE_TYPE_SYNC_V2 } else { MESSAGE_TYPE_SYNC });
    assert!(out[1] == 1);
    let k: usize = kani::any();
    kani::assume(k < 32);
    assert!(out[2 + k] == hb[k]);
    assert!(out[34] == 0 && out[35] == 0 && out[36] == 0);
    if has_flags {
        assert!(out[37] == 2 && out[38] == 0x02 && out[39] == (0x80 | bits));
    }
    kani::cover!(has_flags && v2);
    kani::cover!(!has_flags && !v2);
    std::mem::forget(out);
}

/// Message::encode framing with one needed hash and one 2-byte change chunk (encode_many over the
/// chunk list): [type, 0, 1, need(32), 0, 1, 2, c0, c1].
#[kani::proof]
#[kani::unwind(34)]
fn message_encode_framing_need_and_chunk() {
    let hb: [u8; 32] = kani::any();
    let c: [u8; 2] = kani::any();
    let v2: bool = kani::any();
    let m = Message {
        heads: Vec::new(),
        need: vec![ChangeHash(hb)],
        have: Vec::new(),
        changes: ChunkList::from(vec![c[0], c[1]]),
        flags: None,
        version: if v2 { MessageVersion::V2 } else { MessageVersion::V1 },
    };
    let out = m.encode();
    assert!(out.len() == 40);
    assert!(out[0] == if v2 { MESSAGE_TYPE_SYNC_V2 } else { MESSAGE_TYPE_SYNC });
    assert!(out[1] == 0 && out[2] == 1);
    let k: usize = kani::any();
    kani::assume(k < 32);
    assert!(out[3 + k] == hb[k]);
    assert!(out[35] == 0 && out[36] == 1 && out[37] == 2 && out[38] == c[0] && out[39] == c[1]);
    kani::cover!(v2);
    std::mem::forget(out);
}

// Message::decode totality (first byte fixed to a message type, 0..7 further symbolic bytes) was
// written and dropped: every rung, including the 1-byte input that fails at the first length prefix,
// exceeded 900 s (the cost is constant: the ReadMessageError / Message types, not the input).
