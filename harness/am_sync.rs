// harnesses for automerge/src/sync.rs
