// harnesses for automerge/src/storage/change.rs
