// G-ORD: operation-id order and the actor-table shift (child module of automerge::types).
// Included by /repo/rust/automerge/src/types.rs under cfg(kani).
use super::*;
use std::cmp::Ordering;

fn any_opid() -> OpId {
    OpId(kani::any(), kani::any())
}

// Independent reading of the order: (counter, actor) lexicographic = numeric order of the 64-bit key.
fn key(x: OpId) -> u64 {
    ((x.0 as u64) << 32) | (x.1 as u64)
}

/// OpId::cmp is the lexicographic (counter, actor) order, for all u32 x u32 ids: a strict total
/// order with Lamport dominance and actor tie-break. Loop-free: no bound.
#[kani::proof]
fn ord_opid_total_order() {
    let a = any_opid();
    let b = any_opid();
    let c = any_opid();
    let ab = a.cmp(&b);
    assert_eq!(ab, key(a).cmp(&key(b)));
    assert_eq!(a.partial_cmp(&b), Some(ab));
    // the order axioms, stated directly so that a change of oracle and code together is still caught
    assert_eq!(ab == Ordering::Equal, a == b);
    assert_eq!(b.cmp(&a), ab.reverse());
    if ab == Ordering::Less && b.cmp(&c) == Ordering::Less {
        assert_eq!(a.cmp(&c), Ordering::Less);
    }
    if a.0 < b.0 {
        assert_eq!(ab, Ordering::Less); // Lamport dominance
    }
    if a.0 == b.0 {
        assert_eq!(ab, a.1.cmp(&b.1)); // tie broken by actor index
    }
    // derived operators agree with cmp
    assert_eq!(a < b, ab == Ordering::Less);
    assert_eq!(a >= b, ab != Ordering::Less);
    assert_eq!(std::cmp::max(a, b), if ab == Ordering::Greater { a } else { b });
    kani::cover!(ab == Ordering::Less && a.0 == b.0);
    kani::cover!(ab == Ordering::Greater && a.0 > b.0 && a.1 < b.1);
}

/// ObjId and ElemId (derived Ord over the wrapped OpId) order exactly as OpId does.
#[kani::proof]
fn ord_wrappers_delegate() {
    let a = any_opid();
    let b = any_opid();
    assert_eq!(ObjId(a).cmp(&ObjId(b)), a.cmp(&b));
    assert_eq!(ElemId(a).cmp(&ElemId(b)), a.cmp(&b));
    assert_eq!(ObjId(a).partial_cmp(&ObjId(b)), Some(a.cmp(&b)));
    assert_eq!(ElemId(a).partial_cmp(&ElemId(b)), Some(a.cmp(&b)));
    assert_eq!(ObjId(a) == ObjId(b), a == b);
    assert_eq!(ElemId(a) == ElemId(b), a == b);
    kani::cover!(a.cmp(&b) == Ordering::Greater);
}

/// Learning a new actor at table index idx renumbers ids without changing their relative order,
/// and forgetting it again is the inverse (all ids, all idx; actor < u32::MAX assumed for the +1).
#[kani::proof]
fn ord_shift_preserves_order() {
    let a = any_opid();
    let b = any_opid();
    let idx: usize = kani::any();
    kani::assume(a.1 < u32::MAX && b.1 < u32::MAX);
    let a2 = a.with_new_actor(idx);
    let b2 = b.with_new_actor(idx);
    assert_eq!(a2.cmp(&b2), a.cmp(&b));
    assert_eq!(a2.0, a.0);
    // oracle for the renumbering: actors at or after the insertion point move up by one
    let exp = if (a.1 as usize) >= idx { a.1 + 1 } else { a.1 };
    assert_eq!(a2.1, exp);
    assert!(a2.actor() != idx);
    assert_eq!(a2.without_actor(idx), Some(a));
    kani::cover!((a.1 as usize) >= idx && (b.1 as usize) < idx && a.0 == b.0);
    kani::cover!(idx == 0);
}

#[kani::proof]
fn ord_unshift_preserves_order() {
    let a = any_opid();
    let b = any_opid();
    let idx: usize = kani::any();
    match (a.without_actor(idx), b.without_actor(idx)) {
        (Some(a2), Some(b2)) => {
            assert_eq!(a2.cmp(&b2), a.cmp(&b));
            assert_eq!(a2.0, a.0);
            let exp = if (a.1 as usize) > idx { a.1 - 1 } else { a.1 };
            assert_eq!(a2.1, exp);
            if a2.1 < u32::MAX {
                assert_eq!(a2.with_new_actor(idx), a);
            }
            kani::cover!((a.1 as usize) > idx && (b.1 as usize) < idx && a.0 == b.0);
        }
        (None, _) => assert_eq!(a.1 as usize, idx),
        (_, None) => assert_eq!(b.1 as usize, idx),
    }
    kani::cover!(a.without_actor(idx).is_none());
}

/// Identity under the shift: with a sorted actor table T and T' = T with a new actor inserted at
/// i, the renumbered id names the same actor bytes. Table of 3 one-byte actors, all insertion
/// points 0..=3, all ids over that table.
#[kani::proof]
#[kani::unwind(6)]
fn ord_shift_preserves_identity() {
    let t: [u8; 3] = [0x10, 0x20, 0x30];
    let i: usize = kani::any();
    kani::assume(i <= 3);
    let newb: u8 = 0x07;
    let mut t2 = [0u8; 4];
    let mut k = 0;
    while k < 4 {
        t2[k] = if k < i { t[k] } else if k == i { newb } else { t[k - 1] };
        k += 1;
    }
    let a = any_opid();
    kani::assume((a.1 as usize) < 3);
    let a2 = a.with_new_actor(i);
    assert_eq!(t2[a2.actor()], t[a.actor()]);
    assert_eq!(a2.counter(), a.counter());
    // object ids: root is a fixed point in both directions, others follow OpId
    let o = ObjId(a);
    if o.is_root() {
        assert_eq!(o.with_new_actor(i), o);
        assert_eq!(o.without_actor(i), Some(o));
    } else {
        assert_eq!(o.with_new_actor(i), ObjId(a2));
        assert_eq!(o.with_new_actor(i).without_actor(i), Some(o));
    }
    assert_eq!(ObjId::root().with_new_actor(i), ObjId::root());
    assert_eq!(ObjId::root().without_actor(i), Some(ObjId::root()));
    assert!(ElemId::head().is_head());
    kani::cover!(i == 0 && a.1 == 2 && !o.is_root());
    kani::cover!(i == 3 && o.is_root());
}

/// OpId::new / counter / actor accessors are mutually inverse on the representable range.
#[kani::proof]
fn ord_accessors() {
    let a = any_opid();
    assert_eq!(OpId::new(a.counter(), a.actor()), a);
    assert_eq!(a.counter(), a.0 as u64);
    assert_eq!(a.icounter(), a.0 as i64);
    assert_eq!(a.actor(), a.1 as usize);
    assert_eq!(a.actoridx(), crate::op_set2::ActorIdx(a.1));
    kani::cover!(a.0 == u32::MAX);
}

/// Over-approximating stub for `ActorId::from(&[u8])` (a TinyVec copy whose symbolic length makes
/// CBMC unroll every copy path): same length, arbitrary content. Every behaviour of the real copy
/// is included. Only for inputs of <= 16 bytes (inline storage), which the harnesses guarantee.
#[allow(dead_code)]
pub(crate) fn stub_actor_from_slice<'a>(b: &'a [u8]) -> ActorId
where
    'a: 'a, // early-bound, to match the generic count of the impl method being stubbed
{
    assert!(b.len() <= 16);
    let content: [u8; 16] = kani::any();
    ActorId(TinyVec::Inline(tinyvec::ArrayVec::from_array_len(content, b.len())))
}

/// Same over-approximation for `ActorId::from(Vec<u8>)` (used by `ActorId::try_from(&str)` after hex decoding).
#[allow(dead_code)]
pub(crate) fn stub_actor_from_vec(b: Vec<u8>) -> ActorId {
    assert!(b.len() <= 16);
    let content: [u8; 16] = kani::any();
    let a = ActorId(TinyVec::Inline(tinyvec::ArrayVec::from_array_len(content, b.len())));
    std::mem::forget(b);
    a
}

/// An ActorId of `len` bytes (all 0x5a) built directly in its representation (inline up to 16 bytes,
/// heap beyond), so that its length is a constant for the solver.
#[allow(dead_code)]
pub(crate) fn actor_of_len(len: usize) -> ActorId {
    if len <= 16 {
        ActorId(TinyVec::Inline(tinyvec::ArrayVec::from_array_len([0x5a; 16], len)))
    } else {
        ActorId(TinyVec::Heap(vec![0x5a; len]))
    }
}
