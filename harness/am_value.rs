// harnesses for automerge/src/value.rs
