// harnesses for automerge/src/op_set2/change/batch.rs
