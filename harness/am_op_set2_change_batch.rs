// G-INCR: increment successors (child module of automerge::op_set2::change::batch).
// Included by /repo/rust/automerge/src/op_set2/change/batch.rs under cfg(kani).
use super::*;

fn any_opid() -> OpId {
    let c: u32 = kani::any();
    let a: u32 = kani::any();
    OpId::new(c as u64, a as usize)
}

fn any_succ() -> (OpId, Option<i64>) {
    (any_opid(), kani::any())
}

/// What `process_pred` computes from the normalised successors: the predecessor is deleted
/// (overwritten) iff some successor is not an increment.
fn deleted(succ: &[(OpId, Option<i64>)]) -> bool {
    let mut d = false;
    for (_, inc) in succ {
        d |= inc.is_none();
    }
    d
}

/// A successor that is an increment (Some(n)) keeps a COUNTER predecessor alive and carries its
/// amount; on a NON-counter predecessor it is an ordinary overwrite (becomes None => deleted).
/// Ids and order of the successors are never touched. 3 successors, all ids, all amounts.
#[kani::proof]
#[kani::unwind(5)]
fn incr_successors_normalized_3() {
    let is_counter: bool = kani::any();
    let mut s = [any_succ(), any_succ(), any_succ()];
    let before = s;
    normalize_increment_successors(is_counter, &mut s);
    let mut i = 0;
    while i < 3 {
        assert!(s[i].0 == before[i].0);
        if is_counter {
            assert!(s[i].1 == before[i].1);
        } else {
            assert!(s[i].1.is_none());
        }
        i += 1;
    }
    if is_counter {
        // a counter survives exactly when every successor is an increment
        assert_eq!(deleted(&s), before[0].1.is_none() || before[1].1.is_none() || before[2].1.is_none());
    } else {
        // any successor of a non-counter value overwrites it, increment or not
        assert!(deleted(&s));
    }
    kani::cover!(is_counter && !deleted(&s));
    kani::cover!(!is_counter && before[0].1.is_some() && before[1].1.is_some() && before[2].1.is_some());
}

/// Same on every prefix length 0..=3 of the buffer: entries outside the slice are untouched and an
/// empty successor list deletes nothing.
#[kani::proof]
#[kani::unwind(5)]
fn incr_successors_prefix_only() {
    let is_counter: bool = kani::any();
    let n: usize = kani::any();
    kani::assume(n <= 3);
    let mut s = [any_succ(), any_succ(), any_succ()];
    let before = s;
    normalize_increment_successors(is_counter, &mut s[..n]);
    let mut i = 0;
    while i < 3 {
        assert!(s[i].0 == before[i].0);
        if i >= n || is_counter {
            assert!(s[i].1 == before[i].1);
        } else {
            assert!(s[i].1.is_none());
        }
        i += 1;
    }
    if n == 0 {
        assert!(!deleted(&s[..n]));
    }
    kani::cover!(n == 0);
    kani::cover!(n == 2 && !is_counter && before[2].1.is_some() && before[0].1.is_some());
}
