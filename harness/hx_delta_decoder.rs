// harnesses for hexane/src/delta/decoder.rs
