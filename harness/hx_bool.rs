// harnesses for hexane/src/bool.rs
