// G-HEX-bool: boolean columns - the validator (bool_validate_encoding, run by load over untrusted
// bytes) against the decoder every read uses afterwards. Child module of hexane::bool.
// The Leb128 reads are stubbed with the reference readers (see hx_rle_load.rs / codec_ref_equiv_len*).
use super::*;
use crate::verif_kani::ref_read_unsigned;

const K: usize = 4;

/// Independent reading of the format: alternating run lengths, first run = false.
/// Value of item `i`, or None past the end.
fn oracle_item(b: &[u8], i: usize) -> Option<bool> {
    let mut pos = 0;
    let mut value = false;
    let mut seen: usize = 0;
    let mut guard = 0;
    while pos < b.len() && guard < 8 {
        let (cb, count) = ref_read_unsigned(&b[pos..])?;
        let count = count as usize;
        if i < seen.wrapping_add(count) && i >= seen {
            return Some(value);
        }
        seen = seen.wrapping_add(count);
        pos += cb;
        value = !value;
        guard += 1;
    }
    None
}

/// For EVERY N-byte slab: bool_validate_encoding is total; if it accepts, the decoder yields
/// exactly `len` items (the first K are pulled), each equal to the independent reading of the run
/// lengths, and never loops without consuming input.
fn validate_then_decode<const N: usize>() {
    let b: [u8; N] = kani::any();
    match bool_validate_encoding::<Leb128>(&b) {
        Ok(info) => {
            assert!(info.segments <= N && info.segments >= 1);
            let mut d = BoolDecoder::<Leb128>::new(&b);
            let mut k = 0;
            while k < K {
                match d.next() {
                    Some(v) => {
                        assert!(k < info.len);
                        assert!(oracle_item(&b, k) == Some(v));
                    }
                    None => {
                        assert!(k == info.len);
                        break;
                    }
                }
                k += 1;
            }
            kani::cover!(info.len == 2 && info.segments == 2);
            kani::cover!(info.len > K);
        }
        Err(e) => {
            kani::cover!(true);
            std::mem::forget(e);
        }
    }
}

macro_rules! bool_harness {
    ($name:ident, $n:expr, $unwind:expr) => {
        bool_harness!($name, $n, $unwind, validate_then_decode);
    };
    ($name:ident, $n:expr, $unwind:expr, $f:ident) => {
        #[kani::proof]
        #[kani::unwind($unwind)]
        #[kani::stub(alloc::fmt::format, crate::verif_kani::stub_format)]
        #[kani::stub(<crate::codec::Leb128 as crate::codec::Codec>::read_unsigned, crate::verif_kani::ref_read_unsigned)]
        #[kani::stub(<crate::codec::Leb128 as crate::codec::Codec>::read_signed, crate::verif_kani::ref_read_signed)]
        #[kani::stub(<crate::codec::Leb128 as crate::codec::Codec>::try_read_unsigned, crate::verif_kani::ref_try_read_unsigned)]
        #[kani::stub(<crate::codec::Leb128 as crate::codec::Codec>::try_read_signed, crate::verif_kani::ref_try_read_signed)]
        fn $name() {
            $f::<$n>()
        }
    };
}
bool_harness!(bool_validate_then_decode_len2, 2, 9);
bool_harness!(bool_validate_then_decode_len3, 3, 9);
bool_harness!(bool_validate_then_decode_len4, 4, 9);

/// The skipping read: on EVERY accepted N-byte slab and every k < K, nth(k) is the independent
/// reading's item k (None exactly past the end).
fn nth_matches_oracle<const N: usize>() {
    let b: [u8; N] = kani::any();
    if let Ok(info) = bool_validate_encoding::<Leb128>(&b) {
        let k: usize = kani::any();
        kani::assume(k < K);
        let mut d = BoolDecoder::<Leb128>::new(&b);
        let got = d.nth(k);
        assert!(got == oracle_item(&b, k));
        assert!(got.is_some() == (k < info.len));
        // and the decoder continues with item k+1
        assert!(d.next() == oracle_item(&b, k + 1));
        kani::cover!(k > 0 && got == Some(true));
        kani::cover!(got.is_none());
    }
}

bool_harness!(bool_nth_matches_oracle_len3, 3, 9, nth_matches_oracle);
bool_harness!(bool_nth_matches_oracle_len4, 4, 9, nth_matches_oracle);

/// Concrete witness: two runs of u64::MAX items each (20 bytes). The loader accumulates run lengths
/// from the wire; it must answer Ok or Err, not overflow (it overflowed before the fix: commit).
#[kani::proof]
#[kani::unwind(12)]
#[kani::stub(alloc::fmt::format, crate::verif_kani::stub_format)]
#[kani::stub(<crate::codec::Leb128 as crate::codec::Codec>::read_unsigned, crate::verif_kani::ref_read_unsigned)]
fn bool_load_two_max_runs_concrete() {
    let mut b = [0xffu8; 20];
    b[9] = 1;
    b[19] = 1;
    kani::cover!(true, "entry (replay witness)");
    let it = BoolLoadIter::<Leb128>::new(&b, 64);
    let r = it.finalize();
    assert!(r.is_err());
    kani::cover!(r.is_err());
    std::mem::forget(r);
}
