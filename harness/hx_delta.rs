// harnesses for hexane/src/delta/mod.rs
