// harnesses for hexane/src/codec.rs
