// G-HEX-codec: hexane's varint codec (child module of hexane::codec). C35.
// Included by /repo/rust/hexane/src/codec.rs under cfg(kani).
use super::*;

/// Leb128 unsigned: read(encode(n)) = (len, n) for ALL u64; the encoding is 1..=10 bytes, every
/// byte but the last carries the continuation bit, `unsigned_size`/`ulebsize` = bytes written,
/// `unsigned_len` = bytes written, the checked read agrees with the unchecked one.
#[kani::proof]
#[kani::unwind(12)]
fn codec_unsigned_roundtrip_all_u64() {
    let n: u64 = kani::any();
    let buf = Leb128::encode_unsigned(n);
    let len = buf.as_bytes().len();
    assert!(len >= 1 && len <= 10);
    assert_eq!(Leb128::unsigned_size(n), len as u64);
    assert_eq!(ulebsize(n), len as u64);
    let mut i = 0;
    while i < len {
        assert_eq!(buf.as_bytes()[i] & 0x80 != 0, i + 1 < len);
        i += 1;
    }
    match Leb128::read_unsigned(buf.as_bytes()) {
        Some((used, v)) => {
            assert_eq!(used, len);
            assert_eq!(v, n);
        }
        None => panic!("own encoding must decode"),
    }
    match Leb128::try_read_unsigned(buf.as_bytes()) {
        Ok((used, v)) => {
            assert_eq!(used, len);
            assert_eq!(v, n);
        }
        Err(e) => {
            std::mem::forget(e);
            panic!("own encoding must decode (checked read)");
        }
    }
    assert_eq!(Leb128::unsigned_len(buf.as_bytes()), Some(len));
    match Leb128::read_count(buf.as_bytes()) {
        Some((used, v)) => {
            assert_eq!(used, len);
            assert_eq!(v as u64, n);
        }
        None => panic!("own encoding must decode as a count"),
    }
    kani::cover!(len == 1);
    kani::cover!(len == 10);
    kani::cover!(n == u64::MAX);
}

/// Leb128 signed: the same identities for ALL i64.
#[kani::proof]
#[kani::unwind(12)]
fn codec_signed_roundtrip_all_i64() {
    let n: i64 = kani::any();
    let buf = Leb128::encode_signed(n);
    let len = buf.as_bytes().len();
    assert!(len >= 1 && len <= 10);
    assert_eq!(Leb128::signed_size(n), len as u64);
    assert_eq!(lebsize(n), len as u64);
    let mut i = 0;
    while i < len {
        assert_eq!(buf.as_bytes()[i] & 0x80 != 0, i + 1 < len);
        i += 1;
    }
    match Leb128::read_signed(buf.as_bytes()) {
        Some((used, v)) => {
            assert_eq!(used, len);
            assert_eq!(v, n);
        }
        None => panic!("own encoding must decode"),
    }
    match Leb128::try_read_signed(buf.as_bytes()) {
        Ok((used, v)) => {
            assert_eq!(used, len);
            assert_eq!(v, n);
        }
        Err(e) => {
            std::mem::forget(e);
            panic!("own encoding must decode (checked read)");
        }
    }
    assert_eq!(Leb128::signed_len(buf.as_bytes()), Some(len));
    let r = Leb128::signed_bytes(buf.as_bytes(), 0);
    assert!(r.start == 0 && r.end == len);
    kani::cover!(len == 1 && n < 0);
    kani::cover!(len == 10 && n < 0);
    kani::cover!(len == 10 && n > 0);
    kani::cover!(n == i64::MIN);
}

/// Independent reading of LEB128 over a fixed-length buffer: index of the first byte without the
/// continuation bit.
fn terminator<const N: usize>(b: &[u8; N]) -> Option<usize> {
    let mut i = 0;
    while i < N {
        if b[i] & 0x80 == 0 {
            return Some(i);
        }
        i += 1;
    }
    None
}

/// On EVERY byte string of length N: the reads never panic (no shift >= 64, no index out of
/// range), consume 1..=min(N,10) bytes, the checked and unchecked reads agree, and the skip
/// helpers `unsigned_len` / `signed_len` agree with the full reads:
///   read = Some((n, _))  =>  len = Some(n);   len = None  =>  read = None;
///   len = Some(n), n < 10  =>  read = Some((n, _))   (a 10-byte varint may still overflow u64).
fn reads_total<const N: usize>() {
    let b: [u8; N] = kani::any();
    let t = terminator(&b);
    let ru = Leb128::read_unsigned(&b);
    let rs = Leb128::read_signed(&b);
    let lu = Leb128::unsigned_len(&b);
    let ls = Leb128::signed_len(&b);
    assert_eq!(lu, ls);
    // the skip helper is exactly "first terminator within 10 bytes"
    match t {
        Some(i) if i < 10 => assert_eq!(lu, Some(i + 1)),
        _ => assert_eq!(lu, None),
    }
    match ru {
        Some((n, v)) => {
            assert!(n >= 1 && n <= N && n <= 10);
            assert_eq!(lu, Some(n));
            if n < 10 {
                // value bound: n bytes carry 7n bits
                assert!(n * 7 >= 64 || v < (1u64 << (n * 7)));
            }
            kani::cover!(n == N || N > 10);
        }
        None => {
            // only truncation or a 10-byte overflow fail
            assert!(lu.is_none() || lu == Some(10));
            kani::cover!(true);
        }
    }
    match rs {
        Some((n, v)) => {
            assert!(n >= 1 && n <= N && n <= 10);
            assert_eq!(ls, Some(n));
            if n == 1 {
                assert!(v >= -64 && v <= 63);
            }
        }
        None => assert!(ls.is_none() || ls == Some(10)),
    }
    if let Some(n) = lu {
        if n < 10 {
            assert!(ru.is_some() && rs.is_some());
        }
    }
    // checked reads = unchecked reads
    match Leb128::try_read_unsigned(&b) {
        Ok(x) => assert!(ru == Some(x)),
        Err(e) => {
            assert!(ru.is_none());
            std::mem::forget(e);
        }
    }
    match Leb128::try_read_signed(&b) {
        Ok(x) => assert!(rs == Some(x)),
        Err(e) => {
            assert!(rs.is_none());
            std::mem::forget(e);
        }
    }
    // canonical encodings are fixed points: if the bytes are what encode would write, it is the same bytes
    if let Some((n, v)) = ru {
        let back = Leb128::encode_unsigned(v);
        if back.as_bytes().len() == n {
            let mut i = 0;
            while i < n {
                assert_eq!(back.as_bytes()[i], b[i]);
                i += 1;
            }
            kani::cover!(true);
        } else {
            // overlong (padded) input: the canonical form is shorter
            assert!(back.as_bytes().len() < n);
        }
    }
}

macro_rules! reads_total_harness {
    ($name:ident, $n:expr, $unwind:expr) => {
        #[kani::proof]
        #[kani::unwind($unwind)]
        fn $name() {
            reads_total::<$n>()
        }
    };
}
reads_total_harness!(codec_reads_total_len1, 1, 13);
reads_total_harness!(codec_reads_total_len2, 2, 13);
reads_total_harness!(codec_reads_total_len3, 3, 13);
reads_total_harness!(codec_reads_total_len4, 4, 13);
reads_total_harness!(codec_reads_total_len5, 5, 13);
reads_total_harness!(codec_reads_total_len6, 6, 13);
reads_total_harness!(codec_reads_total_len7, 7, 13);
reads_total_harness!(codec_reads_total_len8, 8, 13);
reads_total_harness!(codec_reads_total_len9, 9, 13);
reads_total_harness!(codec_reads_total_len10, 10, 13);
reads_total_harness!(codec_reads_total_len11, 11, 13);

/// VarBuf: push / extend_from_slice / iteration keep the bytes and the length (the stack buffer
/// every encoder writes through).
#[kani::proof]
#[kani::unwind(6)]
fn codec_varbuf_bytes() {
    let a: [u8; 3] = kani::any();
    let c: u8 = kani::any();
    let mut v = VarBuf::new();
    assert_eq!(v.as_bytes().len(), 0);
    v.extend_from_slice(&a);
    v.push(c);
    assert_eq!(v.len(), 4);
    let mut it = v.into_iter();
    assert_eq!(it.size_hint(), (4, Some(4)));
    assert_eq!(it.next(), Some(a[0]));
    assert_eq!(it.next(), Some(a[1]));
    assert_eq!(it.next(), Some(a[2]));
    assert_eq!(it.next(), Some(c));
    assert_eq!(it.next(), None);
    kani::cover!(c == 0xff);
}

// ---------------------------------------------------------------------------------------------
// Reference LEB128 readers (crate::verif_kani::ref_*, in hx_root.rs; no io::Error, no trait objects). They serve two purposes:
//  1. codec_ref_equiv_len*: the crate's four Leb128 reads equal them on EVERY input of each length;
//  2. the RLE harnesses (hx_rle_load.rs) stub the four reads with them - sound for slabs no longer
//     than the lengths proved here (assume-guarantee), and it removes io::Error's drop glue, which
//     alone made a 2-byte decode exceed 200 s under CBMC.

use crate::verif_kani::{ref_read_signed, ref_read_unsigned};

fn ref_equiv<const N: usize>() {
    let b: [u8; N] = kani::any();
    let ru = Leb128::read_unsigned(&b);
    let rs = Leb128::read_signed(&b);
    assert!(ru == ref_read_unsigned(&b));
    assert!(rs == ref_read_signed(&b));
    match Leb128::try_read_unsigned(&b) {
        Ok(x) => assert!(Some(x) == ref_read_unsigned(&b)),
        Err(e) => {
            assert!(ref_read_unsigned(&b).is_none());
            std::mem::forget(e);
        }
    }
    match Leb128::try_read_signed(&b) {
        Ok(x) => assert!(Some(x) == ref_read_signed(&b)),
        Err(e) => {
            assert!(ref_read_signed(&b).is_none());
            std::mem::forget(e);
        }
    }
    kani::cover!(ru.is_some() || N == 0);
    kani::cover!(ru.is_none());
}
macro_rules! ref_equiv_harness {
    ($name:ident, $n:expr) => {
        #[kani::proof]
        #[kani::unwind(13)]
        fn $name() {
            ref_equiv::<$n>()
        }
    };
}
ref_equiv_harness!(codec_ref_equiv_len0, 0);
ref_equiv_harness!(codec_ref_equiv_len1, 1);
ref_equiv_harness!(codec_ref_equiv_len2, 2);
ref_equiv_harness!(codec_ref_equiv_len3, 3);
ref_equiv_harness!(codec_ref_equiv_len4, 4);
ref_equiv_harness!(codec_ref_equiv_len5, 5);
ref_equiv_harness!(codec_ref_equiv_len6, 6);
ref_equiv_harness!(codec_ref_equiv_len10, 10);
ref_equiv_harness!(codec_ref_equiv_len11, 11);
