// harnesses for hexane/src/encoder.rs
