// G-SYNCENC (state part): persisted sync state and the read-only switch (child module of
// automerge::sync::state). Included by /repo/rust/automerge/src/sync/state.rs under cfg(kani).
use super::*;

fn any_hash() -> ChangeHash {
    ChangeHash(kani::any())
}

/// Arbitrary session flags over a fixed container shape: one shared head, one sent head, the peer's
/// heads / need / have present or absent, one hash sent this session or none, one capability or none.
fn any_state(h: [ChangeHash; 4]) -> State {
    let mut sent = BTreeSet::new();
    if kani::any() {
        sent.insert(h[3]);
    }
    State {
        shared_heads: vec![h[0]],
        last_sent_heads: vec![h[1]],
        their_heads: if kani::any() { Some(vec![h[2]]) } else { None },
        their_need: if kani::any() { Some(Vec::new()) } else { None },
        their_have: if kani::any() { Some(Vec::new()) } else { None },
        sent_hashes: sent,
        in_flight: kani::any(),
        have_responded: kani::any(),
        their_capabilities: if kani::any() { Some(vec![Capability::SyncReset]) } else { None },
        read_only: kani::any(),
        peer_read_only: kani::any(),
        needs_reset: kani::any(),
    }
}

/// set_read_only from an arbitrary state: same mode = no-op; read-only -> read-write forgets the
/// whole session (so nothing skipped is believed sent), keeps the peer's capabilities and asks for
/// a reset; read-write -> read-only only flips the flag and re-arms the next message.
#[kani::proof]
#[kani::unwind(4)]
fn state_set_read_only_table() {
    let h = [ChangeHash([1; 32]), ChangeHash([2; 32]), ChangeHash([3; 32]), ChangeHash([4; 32])];
    let mut s = any_state(h);
    let was_ro = s.read_only;
    let (in_flight, responded, peer_ro, needs_reset) = (s.in_flight, s.have_responded, s.peer_read_only, s.needs_reset);
    let had_caps = s.their_capabilities.is_some();
    let had_their_heads = s.their_heads.is_some();
    let had_need = s.their_need.is_some();
    let had_have = s.their_have.is_some();
    let n_sent = s.sent_hashes.len();
    let to: bool = kani::any();
    s.set_read_only(to);
    assert!(s.read_only == to);
    // the peer's advertised capabilities survive every transition
    assert!(s.their_capabilities.is_some() == had_caps);
    if let Some(c) = s.their_capabilities.as_ref() {
        assert!(c.len() == 1 && c[0] == Capability::SyncReset);
    }
    assert!(s.peer_supports_sync_reset() == had_caps);
    if was_ro && !to {
        // fresh session
        assert!(s.shared_heads.is_empty());
        assert!(s.last_sent_heads.is_empty());
        assert!(s.their_heads.is_none());
        assert!(s.their_need.is_none());
        assert!(s.their_have.is_none());
        assert!(s.sent_hashes.is_empty());
        assert!(!s.in_flight);
        assert!(!s.have_responded);
        assert!(!s.peer_read_only);
        assert!(s.needs_reset);
    } else {
        // session knowledge untouched
        assert!(s.shared_heads.len() == 1 && s.shared_heads[0].0[0] == 1);
        assert!(s.last_sent_heads.len() == 1 && s.last_sent_heads[0].0[31] == 2);
        assert!(s.their_heads.is_some() == had_their_heads);
        if let Some(t) = s.their_heads.as_ref() {
            assert!(t.len() == 1 && t[0].0[0] == 3);
        }
        assert!(s.their_need.is_some() == had_need);
        assert!(s.their_have.is_some() == had_have);
        assert!(s.sent_hashes.len() == n_sent);
        assert!(s.peer_read_only == peer_ro);
        assert!(s.needs_reset == needs_reset);
        if was_ro == to {
            assert!(s.in_flight == in_flight && s.have_responded == responded);
        } else {
            // read-write -> read-only: the next generate must produce a message carrying READ_ONLY
            assert!(!s.in_flight && !s.have_responded);
        }
    }
    kani::cover!(was_ro && !to && had_caps && n_sent == 1);
    kani::cover!(!was_ro && to && in_flight);
    kani::cover!(was_ro == to && in_flight && n_sent == 1);
    std::mem::forget(s);
}

/// new() is read-write with nothing pending; new_read_only() differs from it in the flag only.
#[kani::proof]
#[kani::unwind(4)]
fn state_constructors() {
    let a = State::new();
    let b = State::new_read_only();
    assert!(!a.read_only && b.read_only);
    assert!(!a.needs_reset && !b.needs_reset && !a.in_flight && !b.in_flight);
    assert!(!a.have_responded && !b.have_responded && !a.peer_read_only && !b.peer_read_only);
    assert!(a.shared_heads.is_empty() && b.shared_heads.is_empty());
    assert!(a.last_sent_heads.is_empty() && b.last_sent_heads.is_empty());
    assert!(a.their_heads.is_none() && b.their_heads.is_none());
    assert!(a.their_need.is_none() && b.their_need.is_none());
    assert!(a.their_have.is_none() && b.their_have.is_none());
    assert!(a.their_capabilities.is_none() && b.their_capabilities.is_none());
    assert!(a.sent_hashes.is_empty() && b.sent_hashes.is_empty());
    assert!(!a.peer_supports_sync_reset() && !a.supports_v2_messages() && !a.send_doc());
    kani::cover!(b.read_only);
}

fn check_restored(r: &State) {
    assert!(r.last_sent_heads.is_empty());
    assert!(r.their_heads.is_none());
    assert!(r.their_need.is_none());
    assert!(matches!(r.their_have.as_ref(), Some(v) if v.is_empty()));
    assert!(r.sent_hashes.is_empty());
    assert!(!r.in_flight);
    assert!(!r.have_responded);
    assert!(r.their_capabilities.is_none());
    assert!(!r.read_only && !r.peer_read_only && !r.needs_reset);
}

/// decode(encode(s)) for a state with no shared heads and ANY session flags: the wire form is
/// [0x43, 0]; the restored state carries no in-flight marker, no sent hashes, no peer knowledge.
#[kani::proof]
#[kani::unwind(4)]
fn state_persist_roundtrip_h0() {
    let h = [ChangeHash([1; 32]), ChangeHash([2; 32]), ChangeHash([3; 32]), ChangeHash([4; 32])];
    let mut s = any_state(h);
    s.shared_heads = Vec::new();
    let bytes = s.encode();
    assert!(bytes.len() == 2 && bytes[0] == 0x43 && bytes[1] == 0);
    match State::decode(&bytes) {
        Ok(r) => {
            assert!(r.shared_heads.is_empty());
            check_restored(&r);
            kani::cover!(s.in_flight && !r.in_flight);
            std::mem::forget(r);
        }
        Err(_) => panic!("an encoded state must decode"),
    }
    std::mem::forget(s);
    std::mem::forget(bytes);
}

/// Same with one shared head of ANY value: 34 bytes on the wire, the head comes back bit for bit
/// (compared at an arbitrary byte index, which covers all 32 without a loop).
#[kani::proof]
#[kani::unwind(4)]
fn state_persist_roundtrip_h1() {
    let h = any_hash();
    let mut s = State::new();
    s.shared_heads = vec![h];
    s.in_flight = kani::any();
    s.have_responded = kani::any();
    s.read_only = kani::any();
    s.peer_read_only = kani::any();
    s.needs_reset = kani::any();
    let bytes = s.encode();
    assert!(bytes.len() == 34 && bytes[0] == 0x43 && bytes[1] == 1);
    let k: usize = kani::any();
    kani::assume(k < 32);
    assert!(bytes[2 + k] == h.0[k]);
    match State::decode(&bytes) {
        Ok(r) => {
            assert!(r.shared_heads.len() == 1 && r.shared_heads[0].0[k] == h.0[k]);
            check_restored(&r);
            kani::cover!(s.in_flight && s.read_only && !r.in_flight);
            std::mem::forget(r);
        }
        Err(_) => panic!("an encoded state must decode"),
    }
    std::mem::forget(s);
    std::mem::forget(bytes);
}

/// State::decode over EVERY 2-byte and 3-byte input: never panics; accepts exactly [0x43, 0, ..]
/// (no heads); a non-zero head count without the hashes is "not enough input", never a short state.
#[kani::proof]
#[kani::unwind(12)]
fn state_decode_total_len3() {
    let b: [u8; 3] = kani::any();
    let n: usize = kani::any();
    kani::assume(n == 2 || n == 3);
    match State::decode(&b[..n]) {
        Ok(r) => {
            assert!(b[0] == 0x43 && b[1] == 0);
            assert!(r.shared_heads.is_empty());
            check_restored(&r);
            kani::cover!(n == 3);
            std::mem::forget(r);
        }
        Err(e) => {
            assert!(b[0] != 0x43 || b[1] != 0);
            kani::cover!(matches!(e, DecodeError::NotEnoughInput));
            kani::cover!(matches!(e, DecodeError::WrongType { .. }));
            std::mem::forget(e);
        }
    }
}

fn any_capability() -> Capability {
    let c: u8 = kani::any();
    kani::assume(c < 3);
    match c {
        0 => Capability::MessageV1,
        1 => Capability::MessageV2,
        _ => Capability::SyncReset,
    }
}

/// The capability predicates that steer the protocol (whether to send a SYNC_RESET flag or fall
/// back to a reset message, whether to use V2 messages, whether to send the whole document), over
/// every capability list of length 0..=2 and absent: each looks for ITS capability and no other.
#[kani::proof]
#[kani::unwind(4)]
fn state_capability_predicates() {
    let c0 = any_capability();
    let c1 = any_capability();
    let n: u8 = kani::any();
    kani::assume(n <= 3);
    let caps = match n {
        0 => None,
        1 => Some(Vec::new()),
        2 => Some(vec![c0.clone()]),
        _ => Some(vec![c0.clone(), c1.clone()]),
    };
    let heads_case: u8 = kani::any();
    kani::assume(heads_case < 3);
    let mut s = State::new();
    s.their_capabilities = caps;
    s.their_heads = match heads_case {
        0 => None,
        1 => Some(Vec::new()),
        _ => Some(vec![ChangeHash([9; 32])]),
    };
    let has = |want: &Capability| match n {
        0 | 1 => false,
        2 => c0 == *want,
        _ => c0 == *want || c1 == *want,
    };
    assert_eq!(s.peer_supports_sync_reset(), has(&Capability::SyncReset));
    assert_eq!(s.supports_v2_messages(), has(&Capability::MessageV2));
    assert_eq!(s.send_doc(), heads_case == 1 && has(&Capability::MessageV2));
    kani::cover!(s.peer_supports_sync_reset() && !s.supports_v2_messages());
    kani::cover!(s.send_doc());
    std::mem::forget(s);
}
