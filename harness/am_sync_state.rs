// harnesses for automerge/src/sync/state.rs
