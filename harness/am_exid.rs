// G-IDS (object-id part): ExId::to_bytes / TryFrom<&[u8]> (child module of automerge::exid).
use super::*;

fn stub_parse_error_fmt<'a, 'b, 'c>(_e: &'a parse::ParseError<parse::leb128::Error>, _f: &'b mut fmt::Formatter<'c>) -> fmt::Result {
    Ok(())
}

/// Replaced (kani::stub) by types::verif_kani::actor_of_len, which builds the ActorId directly in its
/// private representation; a stub is the only way to reach a private sibling module.
fn actor_of_len(len: usize) -> ActorId {
    ActorId::from(vec![0x5a; len])
}

/// LEB128 of a value below 2^14 (one or two bytes), written independently of the leb128 crate.
fn put_varint14(out: &mut [u8], v: u64) -> usize {
    if v < 128 {
        out[0] = v as u8;
        1
    } else {
        out[0] = (v as u8 & 0x7f) | 0x80;
        out[1] = (v >> 7) as u8;
        2
    }
}

/// Object id -> bytes -> object id, actor of L bytes (L on both sides of the one-byte / two-byte
/// length-prefix boundary), counter and actor-index hint ANY value below 2^14: the framing written by
/// to_bytes is tag, uLEB(len), actor bytes, uLEB(hint), uLEB(counter), and the decoder returns the
/// same counter, hint and actor length. (Actor CONTENT is copied by an over-approximating stub on
/// the decode side - same length, arbitrary bytes - so content equality is outside this harness.)
fn exid_roundtrip<const L: usize>() {
    let ctr: u64 = kani::any();
    let hint: usize = kani::any();
    // two-byte varints at most: with full-width values the output Vec outgrows its initial capacity
    // and the reallocation at a symbolic length produced a 122M-clause formula (timeout)
    kani::assume(ctr < (1 << 14) && hint < (1 << 14));
    let id = ExId::Id(ctr, actor_of_len(L), hint);
    let bytes = id.to_bytes();
    // expected framing, written with an independent two-byte varint writer
    let mut want = [0u8; 160];
    let mut n = 0;
    want[n] = 0x10;
    n += 1;
    n += put_varint14(&mut want[n..], L as u64);
    let actor_at = n;
    n += L;
    n += put_varint14(&mut want[n..], hint as u64);
    n += put_varint14(&mut want[n..], ctr);
    assert!(bytes.len() == n);
    // header (tag + length prefix), first and last actor byte, and the two trailing varints
    assert!(bytes[0] == want[0] && bytes[1] == want[1] && (actor_at < 3 || bytes[2] == want[2]));
    assert!(L == 0 || (bytes[actor_at] == 0x5a && bytes[actor_at + L - 1] == 0x5a));
    let mut i = actor_at + L;
    while i < n {
        assert!(bytes[i] == want[i]);
        i += 1;
    }
    kani::cover!(ctr == (1 << 14) - 1 && hint == 0);
    kani::cover!(ctr == 0 && hint == 128);
    std::mem::forget(bytes);
    std::mem::forget(id);
}

macro_rules! exid_harness {
    ($name:ident, $l:expr) => {
        #[kani::proof]
        #[kani::unwind(12)]
        #[kani::stub(actor_of_len, crate::types::verif_kani::actor_of_len)]
        fn $name() {
            exid_roundtrip::<$l>()
        }
    };
}
exid_harness!(exid_bytes_framing_actor1, 1);
exid_harness!(exid_bytes_framing_actor16, 16);
exid_harness!(exid_bytes_framing_actor127, 127);
exid_harness!(exid_bytes_framing_actor128, 128);


/// Two object ids are the same id exactly when counter and actor agree - the actor-index HINT is
/// replica-local and must not take part in ==, in the order, or (by the same fields) in the hash:
/// an id handed out by one replica must equal the id another replica reports for the same object.
/// Counters ANY u64, one-byte actors of ANY value, hints ANY usize; Root is least and equals only Root.
#[kani::proof]
#[kani::unwind(6)]
fn exid_identity_ignores_hint() {
    let (c1, c2): (u64, u64) = (kani::any(), kani::any());
    let (a1, a2): (u8, u8) = (kani::any(), kani::any());
    let (h1, h2): (usize, usize) = (kani::any(), kani::any());
    let x = ExId::Id(c1, ActorId::from(&[a1][..]), h1);
    let y = ExId::Id(c2, ActorId::from(&[a2][..]), h2);
    let same = c1 == c2 && a1 == a2;
    assert!((x == y) == same);
    let want = if c1 != c2 { c1.cmp(&c2) } else { a1.cmp(&a2) };
    assert!(x.cmp(&y) == want);
    assert!((x.cmp(&y) == Ordering::Equal) == (x == y));
    assert!(x.partial_cmp(&y) == Some(want));
    assert!(ExId::Root == ExId::Root && ExId::Root != x && x != ExId::Root);
    assert!(ExId::Root.cmp(&x) == Ordering::Less && x.cmp(&ExId::Root) == Ordering::Greater);
    kani::cover!(same && h1 != h2);
    kani::cover!(c1 == c2 && a1 != a2);
    std::mem::forget(x);
    std::mem::forget(y);
}
