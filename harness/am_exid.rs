// harnesses for automerge/src/exid.rs
