#!/bin/bash
# run_seeded.sh <seeded-dir> [prop ...]  -- apply a seeded change to /repo, run the quick checks of the
# given properties (default: the property in meta.json), record the verdicts in <seeded-dir>/detect.json,
# and restore /repo. Evidence/replays of these runs go to scratch, never into /verif/evidence.
set -u
D=$(readlink -f "$1"); shift
V=$(dirname "$(dirname "$(readlink -f "$0")")")
props="$*"
[ -z "$props" ] && props=$(python3 -c "import json,sys; m=json.load(open('$D/meta.json')); print(' '.join(m.get('run_checks', [m['property']])))")
tier=${VERIF_TIER:-quick}
R=${VERIF_REPO:-/repo}     # default: /repo itself (apply, check, undo); a scratch worktree can be given instead
if ! git -C $R diff --quiet; then echo "$R has local modifications; refusing"; exit 2; fi
git -C $R apply "$D/patch.diff" || { echo "patch does not apply"; exit 2; }
trap 'git -C $R checkout -q -- .' EXIT
S=${VERIF_WORK:-/var/tmp/automerge-verif}/seeded-$$
mkdir -p $S
out="{"
for p in $props; do
  VERIF_EVIDENCE_DIR=$S/evidence VERIF_REPLAY_DIR=$S/replays "$V/check" $p --tier $tier > $S/$p.log 2>&1; rc=$?
  viol=$(grep -c "^VIOLATION" $S/$p.log)
  hs=$(grep -E "^ +COUNTEREXAMPLE" $S/$p.log | awk '{print $2}' | tr '\n' ' ')
  inc=$(grep -E "^INCONCLUSIVE" $S/$p.log | head -3 | cut -c1-200 | tr '\n"' '  ')
  out="$out\"$p\":{\"exit\":$rc,\"violation_lines\":$viol,\"harnesses\":\"$hs\",\"inconclusive\":\"$inc\"},"
  cp $S/$p.log "$D/check_$p.log"
done
out="${out%,}}"
echo "$out" > "$D/detect.json"
cat "$D/detect.json"
rm -rf $S
