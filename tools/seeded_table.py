#!/usr/bin/env python3
"""Print the markdown table of seeded changes and what the checks said about each (from seeded/*/meta.json, detect.json)."""
import glob, json, os, re
V = os.path.dirname(os.path.dirname(os.path.abspath(__file__)))
rows = []
for d in sorted(glob.glob(V + "/seeded/[CK]*-m*")):
    m = json.load(open(d + "/meta.json"))
    notes = open(d + "/notes.md").read() if os.path.exists(d + "/notes.md") else ""
    site = ", ".join(os.path.basename(f) for f in m["files_changed"])
    det = "not run"
    if os.path.exists(d + "/detect.json"):
        try:
            j = json.load(open(d + "/detect.json"))
            parts = []
            for p, v in j.items():
                if v["exit"] == 1:
                    hs = [h.split("::")[-1] for h in v["harnesses"].split()]
                    parts.append("**caught** by `./check %s` (%s)" % (p, ", ".join(hs[:3]) + (" ..." if len(hs) > 3 else "")))
                elif v["exit"] == 2:
                    parts.append("`./check %s` inconclusive (exit 2)" % p)
                else:
                    parts.append("missed by `./check %s`" % p)
            det = "; ".join(parts)
        except Exception:
            det = "unreadable detect.json"
    rows.append((os.path.basename(d), site, m.get("summary", ""), det))
print("| seeded change | file(s) | what it is | verdict of the quick check |")
print("|---|---|---|---|")
for r in rows:
    print("| %s | %s | %s | %s |" % r)
