#!/bin/bash
# confirm_mutant.sh <worktree> <mutant-dir>   -- confirm a seeded change in a scratch worktree:
#   demo passes on the clean tree, fails with patch.diff, and the unedited test suite passes with patch.diff.
# Writes <mutant-dir>/confirm.json. Never touches /repo.
set -u
WT=$1; M=$2
export CARGO_NET_OFFLINE=true
cd "$WT" || exit 2
git checkout -q -- . ; git clean -fdq -e _out -e rust/target
crate=automerge
if [ -f "$M/demo_test.rs" ]; then
  if grep -q "use hexane\|hexane::" "$M/demo_test.rs" && ! grep -q "automerge::" "$M/demo_test.rs"; then crate=hexane; fi
fi
place_demo() {
  if [ -f "$M/demo_test.rs" ]; then cp "$M/demo_test.rs" "rust/$crate/tests/verif_demo_test.rs";
  elif [ -f "$M/demo.diff" ]; then git apply "$M/demo.diff" || return 1; fi
}
run_demo() {
  if [ -f "$M/demo_test.rs" ]; then (cd rust && timeout 1800 cargo test --offline -j 4 -p $crate --test verif_demo_test -- --test-threads 2) > "$M/$1.log" 2>&1
  else
    # demo.diff adds unit tests: run the tests whose names the diff adds
    names=$(grep '^+.*fn ' "$M/demo.diff" | sed 's/.*fn \([a-zA-Z0-9_]*\).*/\1/' | head -5 | tr '\n' ' ')
    rc=0
    for n in $names; do (cd rust && timeout 1800 cargo test --offline -j 4 -p automerge -p hexane $n) >> "$M/$1.log" 2>&1 || rc=1; done
    return $rc
  fi
}
place_demo || { echo '{"error":"demo does not apply"}' > "$M/confirm.json"; exit 2; }
run_demo demo_clean; clean_rc=$?
git apply "$M/patch.diff" || { echo '{"error":"patch does not apply"}' > "$M/confirm.json"; exit 2; }
run_demo demo_mutant; mut_rc=$?
# suite with the patch only (remove the demo)
rm -f rust/$crate/tests/verif_demo_test.rs
if [ -f "$M/demo.diff" ]; then git apply -R "$M/demo.diff"; fi
(cd rust && timeout 3000 cargo nextest run --workspace --no-fail-fast --test-threads 4 --build-jobs 4 --offline) > "$M/suite_mutant.log" 2>&1; suite_rc=$?
summary=$(grep -a "Summary" "$M/suite_mutant.log" | tail -1 | sed 's/"/ /g')
git checkout -q -- . ; git clean -fdq -e _out -e rust/target
echo "{\"demo_clean_rc\":$clean_rc,\"demo_mutant_rc\":$mut_rc,\"suite_rc\":$suite_rc,\"suite_summary\":\"$summary\",\"crate\":\"$crate\"}" > "$M/confirm.json"
cat "$M/confirm.json"
