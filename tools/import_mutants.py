#!/usr/bin/env python3
"""import_mutants.py <prop> : copy confirmed mutants from /tmp/mut/<prop>/_out/m*/ into /verif/seeded/<prop>-m<k>/ with meta.json."""
import json, os, shutil, sys, re
prop = sys.argv[1]                      # directory name under /tmp/mut (and prefix of the seeded ids)
real_prop = sys.argv[2] if len(sys.argv) > 2 else prop   # property the change breaks, when the directory is not named after it
src = "/tmp/mut/%s/_out" % prop
for k in sorted(os.listdir(src)):
    d = os.path.join(src, k)
    cf = os.path.join(d, "confirm.json")
    if not os.path.exists(cf):
        print("skip (not confirmed)", d); continue
    c = json.load(open(cf))
    ok = c.get("demo_clean_rc") == 0 and c.get("demo_mutant_rc") not in (0, None) and c.get("suite_rc") == 0 and "1107 passed" in c.get("suite_summary", "")
    if not ok:
        print("skip (confirmation failed)", d, c); continue
    dst = "/verif/seeded/%s-%s" % (prop, k)
    os.makedirs(dst, exist_ok=True)
    for f in ("patch.diff", "demo_test.rs", "demo.diff", "notes.md", "confirm.json"):
        if os.path.exists(os.path.join(d, f)):
            shutil.copy(os.path.join(d, f), dst)
    notes = open(os.path.join(d, "notes.md")).read() if os.path.exists(os.path.join(d, "notes.md")) else ""
    files = re.findall(r"^\+\+\+ b/(\S+)", open(os.path.join(d, "patch.diff")).read(), re.M)
    meta = {
        "property": real_prop,
        "files_changed": files,
        "needs_to_manifest": "see notes.md",
        "origin": "independent sub-agent given only the property text and a scratch worktree",
        "confirmed": {
            "how": "tools/confirm_mutant.sh in a scratch worktree of the pinned commit: demo on clean tree, demo with patch.diff, full workspace suite (cargo nextest, 1107 tests) with patch.diff",
            "demo_on_clean_tree": "pass", "demo_with_patch": "fail (rc %s)" % c["demo_mutant_rc"], "suite_with_patch": c["suite_summary"].strip(),
            "demo_crate": c.get("crate"),
        },
        "run_checks": [real_prop],
    }
    json.dump(meta, open(os.path.join(dst, "meta.json"), "w"), indent=1)
    print("imported", dst)
