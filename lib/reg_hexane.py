# G-HEX: hexane wire level (C35, C39). exec'd by registry.py with group, H, PROPS, SETUP_HARNESS in scope.

HX = "C35"
HXS = "C35 C39"

# ---------------------------------------------------------------------------------------------
group("G-HEX-codec", "hexane", "hx_codec.rs", "codec",
      ["codec::Leb128::{encode_unsigned,encode_signed,read_unsigned,read_signed,try_read_unsigned,try_read_signed,"
       "unsigned_len,signed_len,unsigned_size,signed_size}", "codec::Codec::{read_count,signed_bytes}",
       "codec::{lebsize,ulebsize,leb_bytes}", "codec::VarBuf::{new,push,extend_from_slice,as_bytes,into_iter}",
       "leb128::read::{unsigned,signed} (dependency, executed from source)"])
H("G-HEX-codec", "codec_unsigned_roundtrip_all_u64", HX, "ALL u64 values; unwind 12 (10-byte varint + 2)",
  "read(encode(n)) = (len, n); 1..=10 bytes; continuation bits; unsigned_size = ulebsize = unsigned_len = bytes written; checked read = unchecked read")
H("G-HEX-codec", "codec_signed_roundtrip_all_i64", HX, "ALL i64 values; unwind 12",
  "read(encode(n)) = (len, n); signed_size = lebsize = signed_len = bytes written; signed_bytes range")
for _n in range(1, 12):
    H("G-HEX-codec", "codec_reads_total_len%d" % _n, HX + " C15", "EVERY byte string of length %d; unwind 13" % _n,
      "reads never panic / never shift >= 64; consume 1..=min(N,10) bytes; checked = unchecked; unsigned_len/signed_len agree with the "
      "full reads (Some(n) <=> read consumed n, except a 10-byte varint that overflows); canonical encodings re-encode to the same bytes",
      tier="quick" if _n in (1, 2, 3, 4, 10, 11) else "thorough")
H("G-HEX-codec", "codec_varbuf_bytes", HX, "3 + 1 arbitrary bytes; unwind 6", "VarBuf keeps bytes, length and iteration order")

# ---------------------------------------------------------------------------------------------
group("G-HEX-pack", "hexane", "hx_root.rs", "",
      ["<u64|i64|u32|usize|NonZeroU32 as RleValue>::{pack,try_unpack,unpack,value_len}", "<Option<T> as RleValue>::{pack,try_unpack,unpack,is_null,get_null}",
       "<Vec<u8> as RleValue>::{pack,try_unpack,unpack,value_len}", "<String as RleValue>::{pack,try_unpack,unpack,value_len}",
       "core::str::from_utf8 (std, executed from source by String::try_unpack)"])
for _t in ("u64", "i64", "u32", "usize", "nonzero_u32"):
    H("G-HEX-pack", "pack_roundtrip_%s" % _t, HX, "ALL values of the type; unwind 12",
      "try_unpack(pack(v)) = (bytes written, v); unchecked unpack and value_len agree")
H("G-HEX-pack", "pack_roundtrip_option_u64", HX, "ALL Option<u64>; unwind 12", "Some packs like the bare value; None writes nothing")
for _n in (1, 2, 5, 6):
    H("G-HEX-pack", "pack_narrowing_total_len%d" % _n, HX + " C15", "EVERY byte string of length %d" % _n,
      "u32 / NonZeroU32 / usize / i64 try_unpack succeed exactly when the wide read succeeds and the value is in range (no truncation, no zero)")
for _n in (0, 1, 3):
    H("G-HEX-pack", "pack_roundtrip_bytes_len%d" % _n, HX, "every payload of %d bytes" % _n, "Vec<u8> pack -> try_unpack / unpack / value_len")
for _n in (1, 2, 3, 4, 5):
    H("G-HEX-pack", "pack_bytes_unpack_total_len%d" % _n, HX + " C15", "EVERY byte string of length %d" % _n,
      "Vec<u8>::try_unpack never reads past the input; value = declared bytes; value_len (also String's) agrees; unchecked unpack agrees on accepted input",
      tier="quick" if _n < 5 else "thorough")
H("G-HEX-pack", "pack_roundtrip_string_char", HXS, "every Unicode scalar value (1..=4 UTF-8 bytes)", "String pack -> unchecked unpack returns the same bytes; packed payload valid UTF-8")
H("G-HEX-pack", "pack_roundtrip_string_empty", HXS, "the empty string", "pack -> try_unpack / unpack")
for _n in (1, 2, 3):
    H("G-HEX-pack", "pack_roundtrip_string_ascii_len%d" % _n, HXS, "every ASCII payload of %d bytes (ASCII only: the checked decoder's UTF-8 scan is the cost driver; width-independent)" % _n,
      "String pack -> try_unpack (checked) returns the same bytes")
for _n in (1, 2, 3, 4, 5):
    H("G-HEX-pack", "pack_string_unpack_total_len%d" % _n, HXS + " C15", "EVERY byte string of length %d (header + up to %d payload bytes)" % (_n, _n - 1),
      "String::try_unpack never panics; Ok <=> header readable, declared bytes present and valid UTF-8 by an independent validator; "
      "the unchecked unpack (from_utf8_unchecked) then returns the same bytes", tier="quick" if _n < 5 else "thorough")

H("G-HEX-pack", "pack_huge_length_prefix_rejected_10", "C35 C39 C15 C17", "EVERY 11-byte input starting with a 10-byte varint of value >= 2^63; unwind 13",
  "String / Vec<u8> try_unpack and value_len report missing data; header + length never wraps", timeout=900)
H("G-HEX-pack", "pack_huge_length_prefix_rejected_9", "C35 C39 C15 C17", "EVERY 10-byte input starting with a 9-byte varint of value >= 2^56; unwind 13",
  "as above", tier="thorough")

# G-HEX-rle (rle_validate_encoding vs. the unchecked RleDecoder) was written but never calibrated: every rung, including
# the 1-byte slab, ran into the 300 s harness timeout (suspected: the Display formatting in
# `map_err(|e| PackError::InvalidValue(e.to_string()))`). It is not registered; see DESIGN.md section 9.

# harnesses in the crate root module are named "verif_kani::<fn>" (no leading module path)
for _h in HARNESSES:
    if _h["name"].startswith("::"):
        _h["name"] = _h["name"][2:]

SETUP_HARNESS["hexane"] = "codec::verif_kani::codec_varbuf_bytes"

PROPS["C35"] = {
    "decided": "wire level of hexane",
    "outside": ["Column::load / save / splice, the slab B-tree and slab cutting (3 pushes into a Column do not finish in 10 min)"],
}
PROPS["C39"] = {
    "decided": "String::try_unpack only returns valid UTF-8",
    "outside": ["whether every automerge call site validates before using the unchecked decoder"],
}
