# G-HEX: hexane wire level (C35, C39). exec'd by registry.py with group, H, PROPS, SETUP_HARNESS in scope.

HX = "C35"
HXS = "C35 C39"

# ---------------------------------------------------------------------------------------------
group("G-HEX-codec", "hexane", "hx_codec.rs", "codec",
      ["codec::Leb128::{encode_unsigned,encode_signed,read_unsigned,read_signed,try_read_unsigned,try_read_signed,"
       "unsigned_len,signed_len,unsigned_size,signed_size}", "codec::Codec::{read_count,signed_bytes}",
       "codec::{lebsize,ulebsize,leb_bytes}", "codec::VarBuf::{new,push,extend_from_slice,as_bytes,into_iter}",
       "leb128::read::{unsigned,signed} (dependency, executed from source)"])
H("G-HEX-codec", "codec_unsigned_roundtrip_all_u64", HX, "ALL u64 values; unwind 12 (10-byte varint + 2)",
  "read(encode(n)) = (len, n); 1..=10 bytes; continuation bits; unsigned_size = ulebsize = unsigned_len = bytes written; checked read = unchecked read")
H("G-HEX-codec", "codec_signed_roundtrip_all_i64", HX, "ALL i64 values; unwind 12",
  "read(encode(n)) = (len, n); signed_size = lebsize = signed_len = bytes written; signed_bytes range")
for _n in range(1, 12):
    H("G-HEX-codec", "codec_reads_total_len%d" % _n, HX + " C15", "EVERY byte string of length %d; unwind 13" % _n,
      "reads never panic / never shift >= 64; consume 1..=min(N,10) bytes; checked = unchecked; unsigned_len/signed_len agree with the "
      "full reads (Some(n) <=> read consumed n, except a 10-byte varint that overflows); canonical encodings re-encode to the same bytes",
      tier="quick" if _n in (1, 2, 3, 4, 10, 11) else "thorough")
H("G-HEX-codec", "codec_varbuf_bytes", HX, "3 + 1 arbitrary bytes; unwind 6", "VarBuf keeps bytes, length and iteration order")

# ---------------------------------------------------------------------------------------------
group("G-HEX-pack", "hexane", "hx_root.rs", "",
      ["<u64|i64|u32|usize|NonZeroU32 as RleValue>::{pack,try_unpack,unpack,value_len}", "<Option<T> as RleValue>::{pack,try_unpack,unpack,is_null,get_null}",
       "<Vec<u8> as RleValue>::{pack,try_unpack,unpack,value_len}", "<String as RleValue>::{pack,try_unpack,unpack,value_len}",
       "core::str::from_utf8 (std, executed from source by String::try_unpack)"])
for _t in ("u64", "i64", "u32", "usize", "nonzero_u32"):
    H("G-HEX-pack", "pack_roundtrip_%s" % _t, HX, "ALL values of the type; unwind 12",
      "try_unpack(pack(v)) = (bytes written, v); unchecked unpack and value_len agree")
H("G-HEX-pack", "pack_roundtrip_option_u64", HX, "ALL Option<u64>; unwind 12", "Some packs like the bare value; None writes nothing")
for _n in (1, 2, 5, 6):
    H("G-HEX-pack", "pack_narrowing_total_len%d" % _n, HX + " C15", "EVERY byte string of length %d" % _n,
      "u32 / NonZeroU32 / usize / i64 try_unpack succeed exactly when the wide read succeeds and the value is in range (no truncation, no zero)")
for _n in (0, 1, 3):
    H("G-HEX-pack", "pack_roundtrip_bytes_len%d" % _n, HX, "every payload of %d bytes" % _n, "Vec<u8> pack -> try_unpack / unpack / value_len")
for _n in (1, 2, 3, 4, 5):
    H("G-HEX-pack", "pack_bytes_unpack_total_len%d" % _n, HX + " C15", "EVERY byte string of length %d" % _n,
      "Vec<u8>::try_unpack never reads past the input; value = declared bytes; value_len (also String's) agrees; unchecked unpack agrees on accepted input",
      tier="quick" if _n < 5 else "thorough")
H("G-HEX-pack", "pack_roundtrip_string_char", HXS, "every Unicode scalar value (1..=4 UTF-8 bytes)", "String pack -> unchecked unpack returns the same bytes; packed payload valid UTF-8")
H("G-HEX-pack", "pack_roundtrip_string_empty", HXS, "the empty string", "pack -> try_unpack / unpack")
for _n in (1, 2, 3):
    H("G-HEX-pack", "pack_roundtrip_string_ascii_len%d" % _n, HXS, "every ASCII payload of %d bytes (ASCII only: the checked decoder's UTF-8 scan is the cost driver; width-independent)" % _n,
      "String pack -> try_unpack (checked) returns the same bytes")
for _n in (1, 2, 3, 4, 5):
    H("G-HEX-pack", "pack_string_unpack_total_len%d" % _n, HXS + " C15", "EVERY byte string of length %d (header + up to %d payload bytes)" % (_n, _n - 1),
      "String::try_unpack never panics; Ok <=> header readable, declared bytes present and valid UTF-8 by an independent validator; "
      "the unchecked unpack (from_utf8_unchecked) then returns the same bytes", tier="quick" if _n < 5 else "thorough")

for _t in (1, 2):
    H("G-HEX-pack", "pack_string_word_then_tail%d" % _t, "C39 C35 C15", "8 ASCII bytes of ANY value + %d arbitrary tail byte(s), length prefix exact; unwind 14" % _t,
      "String::try_unpack accepts exactly when the tail is valid UTF-8 (independent validator): bytes after the last full machine word are checked", timeout=600)
H("G-HEX-pack", "pack_huge_length_prefix_rejected_10", "C35 C39 C15 C17", "EVERY 11-byte input starting with a 10-byte varint of value >= 2^63; unwind 13",
  "String / Vec<u8> try_unpack and value_len report missing data; header + length never wraps", timeout=900)
H("G-HEX-pack", "pack_huge_length_prefix_rejected_9", "C35 C39 C15 C17", "EVERY 10-byte input starting with a 9-byte varint of value >= 2^56; unwind 13",
  "as above", tier="thorough")

# ---------------------------------------------------------------------------------------------
# G-HEX-rle: validator vs. unchecked decoder. The four Leb128 reads are stubbed with reference readers that
# codec_ref_equiv_len* prove equal to the real ones (assume-guarantee): io::Error's drop glue in the real
# reads alone made a 2-byte decode exceed 200 s.
for _n, _t in ((0, "quick"), (1, "quick"), (2, "quick"), (3, "quick"), (4, "quick"), (5, "quick"), (6, "thorough"), (10, "thorough"), (11, "thorough")):
    H("G-HEX-codec", "codec_ref_equiv_len%d" % _n, "C35 C15", "EVERY byte string of length %d; unwind 13" % _n,
      "Leb128::{read_unsigned,read_signed,try_read_unsigned,try_read_signed} = the reference readers (value and bytes consumed; None/Err together)", tier=_t)
group("G-HEX-rle", "hexane", "hx_rle_load.rs", "rle::load",
      ["rle::load::rle_validate_encoding::<u64|Option<u64>, Leb128>", "rle::decoder::RleDecoder::{new,try_next_segment,next,advance_run}",
       "rle::decoder::RleSegment::validate_after", "<u64|Option<u64> as RleValue>::{try_unpack,unpack,get_null}"],
      stubs=["<Leb128 as Codec>::{read_unsigned,read_signed,try_read_unsigned,try_read_signed} -> reference readers in hx_root.rs, proved equal to "
             "the real ones on every input of length 0..=5 (quick) / 6, 10, 11 (thorough) by codec_ref_equiv_len*; errors collapse to InvalidNumber(Overflow), which the RLE code only propagates",
             "alloc::fmt::format -> empty String"],
      assumptions=["slab = every byte string of the stated fixed length; the first 3 items are pulled from the unchecked decoder"])
for _ty, _lens in (("u64", ((2, "quick"), (3, "quick"), (4, "thorough"), (5, "thorough"))), ("opt_u64", ((2, "quick"), (3, "thorough"), (4, "thorough")))):
    for _n, _t in _lens:
        H("G-HEX-rle", "rle_validate_then_decode_%s_len%d" % (_ty, _n), "C35 C15 C16", "EVERY %d-byte slab of a %s column; unwind %d" % (_n, _ty.replace("opt_", "nullable "), _n + 4),
          "rle_validate_encoding is total; if it accepts, the UNCHECKED decoder (unwrap / unchecked slicing) walks the same bytes without panicking and yields exactly `len` items",
          tier=_t, timeout=900 if _t == "quick" else 1800)

H("G-HEX-rle", "rle_loader_item_count_no_overflow", "C35 C15 C17", "a null run of ANY count >= 1 followed by a repeat run of ANY count in 2..=i64::MAX (what the decoder can hand over), through the loader's own guard + bookkeeping; loop-free",
  "RleLoadIter's per-slab item count (CutState::check_len + track) never overflows: an oversized segment is refused")

H("G-HEX-rle", "rle_ten_byte_run_header_total", "C35 C15", "EVERY 12-byte slab that starts with a 10-byte signed varint run header (any value, incl. i64::MIN / i64::MAX); unwind 13",
  "rle_validate_encoding and RleDecoder::try_next_segment answer without arithmetic overflow (the literal-run count is |n|, not -n)", timeout=900)

group("G-HEX-bool", "hexane", "hx_bool.rs", "bool",
      ["bool::bool_validate_encoding::<Leb128>", "bool::BoolDecoder::{new,next,nth,advance_run}", "codec::Codec::read_count"],
      stubs=["<Leb128 as Codec>::{read_unsigned,read_signed,try_read_unsigned,try_read_signed} -> reference readers (see G-HEX-rle)", "alloc::fmt::format -> empty String"],
      assumptions=["slab = every byte string of the stated fixed length; the first 4 items are pulled; oracle = an independent reading of the alternating run lengths"])
for _n, _t in ((2, "quick"), (3, "quick"), (4, "thorough")):
    H("G-HEX-bool", "bool_validate_then_decode_len%d" % _n, "C35 C15 C16", "EVERY %d-byte slab of a boolean column; unwind 9" % _n,
      "bool_validate_encoding is total; if it accepts, BoolDecoder yields exactly `len` items, each equal to the independent reading (first run false, alternating)", tier=_t, timeout=900)
for _n, _t in ((3, "quick"), (4, "thorough")):
    H("G-HEX-bool", "bool_nth_matches_oracle_len%d" % _n, "C35", "EVERY accepted %d-byte slab, every k < 4; unwind 9" % _n,
      "nth(k) = item k of the independent reading (None exactly past the end) and the decoder continues with item k+1", tier=_t, timeout=900)

H("G-HEX-bool", "bool_load_two_max_runs_concrete", "C35 C15 C17", "CONCRETE input: two runs of u64::MAX items (two 10-byte varints, 20 bytes), default segment budget; unwind 12",
  "BoolLoadIter::finalize answers Ok or Err; the item count accumulated from untrusted run lengths does not overflow (replayable witness)")

# harnesses in the crate root module are named "verif_kani::<fn>" (no leading module path)
for _h in HARNESSES:
    if _h["name"].startswith("::"):
        _h["name"] = _h["name"][2:]

SETUP_HARNESS["hexane"] = "codec::verif_kani::codec_varbuf_bytes"

PROPS["C35"] = {
    "decided": "wire level of hexane: the varint codec for ALL u64 / i64 and every byte string up to 11 bytes (and its equality with reference readers), every RleValue pack/unpack pair, length prefixes near u64::MAX, and the load-time contract of RLE columns - whatever rle_validate_encoding accepts (every 2-5 byte slab of a u64 / nullable u64 column) the unchecked decoder walks without panicking, yielding exactly the announced number of items; boolean columns: validator total, decoder and nth equal to an independent reading of the run lengths (every 2-4 byte slab); the streaming loaders' item counts, accumulated from untrusted run lengths, are refused instead of overflowing; a 10-byte run header of any value (i64::MIN included) is handled without overflow",
    "outside": ["Column::load / save / splice, the slab B-tree and slab cutting (3 pushes into a Column do not finish in 10 min)", "delta columns; the streaming loaders RleLoadIter / BoolLoadIter as a whole (they build Vec<Slab>: out of memory / past 900 s) - the validator harnessed is ColumnEncoding::validate_encoding, which shares try_next_segment + validate_after with the RLE loader", "string slabs and the RLE skipping read nth() (past 1800 s)"],
}
PROPS["C39"] = {
    "decided": "String::try_unpack only returns valid UTF-8 (independent validator): every byte string up to 4 (thorough 5) bytes, 8 ASCII bytes followed by an arbitrary 1-2 byte tail (word-at-a-time scans), length prefixes near u64::MAX; the unchecked unpack then returns the same bytes",
    "outside": ["whether every automerge call site validates before using the unchecked decoder (bundles do not: see DESIGN.md 9.3)", "ScalarValue::from_raw", "the unchecked RLE decoder over string slabs (past 1800 s)"],
}
