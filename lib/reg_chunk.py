group("G-CHUNK", "automerge", "am_storage_chunk.rs", "storage::chunk",
      ["storage::chunk::Header::{new,with_data(fields),write,parse,data_bytes,len,checksum_valid,checksum,hash}",
       "storage::chunk::{ChunkType::try_from,u8::from(ChunkType),CheckSum::{from,bytes}}",
       "storage::parse::{take4,take1,take_n,range_of,leb128_u64,Input::{split,truncate,skip,reset}}"],
      stubs=["storage::chunk::hash (SHA-256 over type||len||data) -> arbitrary ChangeHash: over-approximation, every real hash value is included"],
      assumptions=["a flipped data/length bit changes SHA-256's first four bytes: cryptographic assumption, not decided"])
for n, t in ((10, "quick"), (11, "quick"), (12, "quick"), (14, "thorough"), (20, "thorough")):
    H("G-CHUNK", "chunk_header_total_len%d" % n, "C13 C15 C17", "every %d-byte input; unwind 12" % n,
      "Header::parse total; accepted => exact magic, known type, header 10..N bytes, data inside input", tier=t, unwind_is_budget=True)
H("G-CHUNK", "chunk_header_short_inputs_rejected", "C13 C15", "every input of 0..=9 bytes", "never accepted; a well-formed prefix is Incomplete")
H("G-CHUNK", "chunk_truncation_rejected", "C13", "every 14-byte buffer that starts with an accepted chunk, every cut point before the chunk end",
  "every strict prefix of an accepted chunk is Incomplete; the exact chunk parses to the same framing")
for d, t in ((0, "quick"), (1, "quick"), (3, "thorough"), (200, "quick")):
    H("G-CHUNK", "chunk_header_roundtrip_d%d" % d, "C18 C12", "any chunk type, %d data bytes, 2 arbitrary trailing bytes" % d,
      "parse(write(h)) = h (type, length, size, checksum); split+reset leaves exactly the trailing bytes", tier=t)
H("G-CHUNK", "chunk_checksum_compares_all_32_bits", "C14", "any 256-bit hash, any stored checksum, any single-bit flip of it",
  "checksum_valid <=> stored == hash[0..4]; any one-bit flip of a valid checksum is invalid")
H("G-CHUNK", "chunk_magic_and_type_corruption_rejected", "C14 C15", "every 12-byte chunk with correct magic, any single-bit flip in the magic; any type byte",
  "corrupted magic => InvalidMagicBytes; type > 3 => UnknownChunkType")
H("G-CHUNK", "chunk_type_codes", "C14 C18", "every u8", "ChunkType <-> u8 bijection on 0..=3, everything else rejected")
H("G-CHUNK", "chunk_compressed_change_checksum_both_levels", "C14", "any 256-bit hash of the inflated change, any stored inner and outer checksum; unwind 18",
  "Chunk::checksum_valid(CompressedChange) <=> outer checksum == inner checksum AND inner checksum == hash[0..4]")
H("G-CHUNK", "chunk_header_new_any_data_len", "C12 C13 C18", "ANY data length 0..=4 MiB (every LEB128 width boundary up to 3 -> 4 bytes), any chunk type; SHA-256 stubbed, data never read; unwind 7",
  "Header::new announces header length = 9 + LEB128 length of the data length, data_bytes() starts right after it, Header::write emits exactly that many bytes", timeout=600, native_grid="replay_grid_chunk_header_new", grid_first=True)
