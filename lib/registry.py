"""Registry: which Kani harness decides which part of which property.

HARNESSES: one record per #[kani::proof] in /verif/harness/*.rs
GROUPS:    per harness group: functions encoded, stubs, assumptions (reported in the evidence)
PROPS:     per claimed property: what is decided, what stays outside the claim
"""

TIER_TIMEOUT = {"quick": 300, "thorough": 1800}

# files in /repo that carry the `#[cfg(kani)] mod verif_kani { include!(...) }` stanza
HOOKED = {
    "automerge": ["lib.rs", "types.rs", "clock.rs", "cursor.rs", "exid.rs", "change_queue.rs", "change_graph.rs",
                  "marks.rs", "sync.rs", "sync/bloom.rs", "sync/state.rs", "storage/chunk.rs", "storage/parse.rs",
                  "storage/parse/leb128.rs", "storage/change.rs", "storage/columns/raw_column.rs",
                  "storage/columns/column_specification.rs", "text_diff.rs", "text_diff/myers.rs",
                  "op_set2/change/batch.rs", "columnar/encoding/leb128.rs", "change.rs", "value.rs", "text_value.rs"],
    "hexane": ["lib.rs", "codec.rs", "rle/mod.rs", "rle/decoder.rs", "rle/load.rs", "bool.rs", "delta/mod.rs",
               "delta/decoder.rs", "encoder.rs"],
}

GROUPS = {}
HARNESSES = []
PROPS = {}


def group(gid, crate, file, module, functions_encoded, stubs=(), assumptions=()):
    GROUPS[gid] = {"crate": crate, "file": file, "module": module, "functions_encoded": list(functions_encoded),
                   "stubs": list(stubs), "assumptions": list(assumptions)}


def H(gid, fn, props, bounds, desc="", tier="quick", **kw):
    g = GROUPS[gid]
    rec = {"group": gid, "crate": g["crate"], "file": g["file"], "name": g["module"] + "::verif_kani::" + fn,
           "props": props.split(), "bounds": bounds, "desc": desc, "tier": tier}
    rec.update(kw)
    HARNESSES.append(rec)


# ---------------------------------------------------------------------------------------------
# G-ORD
group("G-ORD", "automerge", "am_types.rs", "types",
      ["types::OpId::cmp", "types::OpId::partial_cmp", "types::OpId::with_new_actor", "types::OpId::without_actor",
       "types::OpId::new", "types::OpId::{counter,icounter,actor,actoridx}", "types::ObjId::{with_new_actor,without_actor,is_root,root}",
       "types::ObjId/ElemId derived Ord/Eq", "types::ElemId::{head,is_head}"],
      assumptions=["actor index < u32::MAX where with_new_actor adds 1 (a table of 2^32 actors is infeasible)"])
ORD = "C01 C02 C19 C30"
H("G-ORD", "ord_opid_total_order", "C01 C02", "3 ids, all u32 x u32 values; loop-free, no unwind bound",
  "cmp = lexicographic (counter, actor); strict total order; Lamport dominance; tie-break by actor")
H("G-ORD", "ord_wrappers_delegate", "C01 C02", "2 ids, all values", "ObjId/ElemId order = OpId order")
H("G-ORD", "ord_shift_preserves_order", "C01 C19 C30", "2 ids (actor < u32::MAX), any usize index",
  "with_new_actor keeps order, renumbers exactly actors >= idx, inverse of without_actor")
H("G-ORD", "ord_unshift_preserves_order", "C01 C19 C30", "2 ids, any usize index",
  "without_actor keeps order among survivors and is None exactly for the removed actor")
H("G-ORD", "ord_shift_preserves_identity", "C19 C30", "3-actor sorted table, insertion point 0..=3, any id over the table; unwind 6",
  "renumbered id names the same actor bytes; root object id is a fixed point")
H("G-ORD", "ord_accessors", "C19 C30", "all u32 x u32 ids", "OpId::new(counter(), actor()) is the identity")

# ---------------------------------------------------------------------------------------------
PROPS["C01"] = {
    "decided": "the id order every replica uses to pick winners and sibling order is one strict total order (Lamport counter, "
               "then actor index) and is invariant under the actor-table renumbering a replica performs when it learns a new actor",
    "outside": ["BatchApply::apply / Untangler / MapWalker merging ops into columns", "merge, load, load_incremental, sync delivery "
                "(document operations: a single concrete doc.get does not finish under Kani in 20 min)"],
}
PROPS["C02"] = {
    "decided": "greatest (counter, actor) wins / higher-id siblings first: the comparison itself; a non-counter increment "
               "overwrites, a counter increment does not (normalize_increment_successors)",
    "outside": ["top/visible indexes, InsertQuery, hydrate: column-backed document operations"],
}
PROPS["C19"] = {
    "decided": "id arithmetic under actor renumbering",
    "outside": ["exid_to_opid against a live document"],
}
PROPS["C30"] = {
    "decided": "with_new_actor keeps every id pointing at the same actor bytes after any insertion into the sorted actor table; "
               "root is a fixed point",
    "outside": ["exid_to_opid's fallback lookup", "Automerge::insert_actor rewriting the columns"],
}

SETUP_HARNESS = {"automerge": "types::verif_kani::ord_accessors"}
