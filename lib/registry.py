"""Registry: which Kani harness decides which part of which property.

HARNESSES: one record per #[kani::proof] in /verif/harness/*.rs
GROUPS:    per harness group: functions encoded, stubs, assumptions (reported in the evidence)
PROPS:     per claimed property: what is decided, what stays outside the claim
"""

TIER_TIMEOUT = {"quick": 300, "thorough": 1800}

# files in /repo that carry the `#[cfg(kani)] mod verif_kani { include!(...) }` stanza
HOOKED = {
    "automerge": ["lib.rs", "types.rs", "clock.rs", "cursor.rs", "exid.rs", "change_queue.rs", "change_graph.rs",
                  "marks.rs", "sync.rs", "sync/bloom.rs", "sync/state.rs", "storage/chunk.rs", "storage/parse.rs",
                  "storage/parse/leb128.rs", "storage/change.rs", "storage/columns/raw_column.rs",
                  "storage/columns/column_specification.rs", "text_diff.rs", "text_diff/myers.rs",
                  "op_set2/change/batch.rs", "columnar/encoding/leb128.rs", "change.rs", "value.rs", "text_value.rs"],
    "hexane": ["lib.rs", "codec.rs", "rle/mod.rs", "rle/decoder.rs", "rle/load.rs", "bool.rs", "delta/mod.rs",
               "delta/decoder.rs", "encoder.rs"],
}

GROUPS = {}
HARNESSES = []
PROPS = {}


def group(gid, crate, file, module, functions_encoded, stubs=(), assumptions=()):
    GROUPS[gid] = {"crate": crate, "file": file, "module": module, "functions_encoded": list(functions_encoded),
                   "stubs": list(stubs), "assumptions": list(assumptions)}


def H(gid, fn, props, bounds, desc="", tier="quick", **kw):
    g = GROUPS[gid]
    rec = {"group": gid, "crate": g["crate"], "file": g["file"], "name": (g["module"] + "::" if g["module"] else "") + "verif_kani::" + fn,
           "props": props.split(), "bounds": bounds, "desc": desc, "tier": tier}
    rec.update(kw)
    HARNESSES.append(rec)


# ---------------------------------------------------------------------------------------------
# G-ORD
group("G-ORD", "automerge", "am_types.rs", "types",
      ["types::OpId::cmp", "types::OpId::partial_cmp", "types::OpId::with_new_actor", "types::OpId::without_actor",
       "types::OpId::new", "types::OpId::{counter,icounter,actor,actoridx}", "types::ObjId::{with_new_actor,without_actor,is_root,root}",
       "types::ObjId/ElemId derived Ord/Eq", "types::ElemId::{head,is_head}"],
      assumptions=["actor index < u32::MAX where with_new_actor adds 1 (a table of 2^32 actors is infeasible)"])
ORD = "C01 C02 C19 C30"
H("G-ORD", "ord_opid_total_order", "C01 C02", "3 ids, all u32 x u32 values; loop-free, no unwind bound",
  "cmp = lexicographic (counter, actor); strict total order; Lamport dominance; tie-break by actor")
H("G-ORD", "ord_wrappers_delegate", "C01 C02", "2 ids, all values", "ObjId/ElemId order = OpId order")
H("G-ORD", "ord_shift_preserves_order", "C01 C19 C30", "2 ids (actor < u32::MAX), any usize index",
  "with_new_actor keeps order, renumbers exactly actors >= idx, inverse of without_actor")
H("G-ORD", "ord_unshift_preserves_order", "C01 C19 C30", "2 ids, any usize index",
  "without_actor keeps order among survivors and is None exactly for the removed actor")
H("G-ORD", "ord_shift_preserves_identity", "C19 C30", "3-actor sorted table, insertion point 0..=3, any id over the table; unwind 6",
  "renumbered id names the same actor bytes; root object id is a fixed point")
H("G-ORD", "ord_accessors", "C19 C30", "all u32 x u32 ids", "OpId::new(counter(), actor()) is the identity")


# ---------------------------------------------------------------------------------------------
# G-BLOOM
group("G-BLOOM", "automerge", "am_sync_bloom.rs", "sync::bloom",
      ["sync::bloom::BloomFilter::{from_hashes,add_hash,get_probes,set_bit,get_bit,contains_hash,to_bytes,parse,default}",
       "sync::bloom::bits_capacity", "<BloomFilter as TryFrom<&[u8]>>::try_from", "storage::parse::{leb128_u32,take_n,Input::new}"],
      stubs=[])
H("G-BLOOM", "bloom_no_false_negative_1", "C23", "1 entry, any 256-bit hash; unwind 9", "member is found")
H("G-BLOOM", "bloom_no_false_negative_2", "C23", "2 entries, any two 256-bit hashes; unwind 9", "both members are found")
H("G-BLOOM", "bloom_no_false_negative_3", "C23", "3 entries, any three hashes; unwind 9", "all members found", tier="thorough")
H("G-BLOOM", "bloom_wire_roundtrip_1", "C23 C19", "1 entry, any hash; unwind 9", "parse(to_bytes(f)) = f field by field and still contains the member")
H("G-BLOOM", "bloom_empty_filter", "C23", "empty filter; any query hash", "encodes to nothing, decodes from nothing, contains nothing")
H("G-BLOOM", "bloom_contains_total_b0_p0", "C23 C15", "any u32 entry count and bits-per-entry, 0 bit byte(s) of any content, probe count 0, any 256-bit hash", "contains_hash never panics; every probe < 8*len", tier="quick")
H("G-BLOOM", "bloom_contains_total_b0_p1", "C23 C15", "any u32 entry count and bits-per-entry, 0 bit byte(s) of any content, probe count 1, any 256-bit hash", "contains_hash never panics; every probe < 8*len", tier="quick")
H("G-BLOOM", "bloom_contains_total_b0_p7", "C23 C15", "any u32 entry count and bits-per-entry, 0 bit byte(s) of any content, probe count 7, any 256-bit hash", "contains_hash never panics; every probe < 8*len", tier="quick")
H("G-BLOOM", "bloom_contains_total_b1_p0", "C23 C15", "any u32 entry count and bits-per-entry, 1 bit byte(s) of any content, probe count 0, any 256-bit hash", "contains_hash never panics; every probe < 8*len", tier="quick")
H("G-BLOOM", "bloom_contains_total_b1_p1", "C23 C15", "any u32 entry count and bits-per-entry, 1 bit byte(s) of any content, probe count 1, any 256-bit hash", "contains_hash never panics; every probe < 8*len", tier="quick")
H("G-BLOOM", "bloom_contains_total_b1_p2", "C23 C15", "any u32 entry count and bits-per-entry, 1 bit byte(s) of any content, probe count 2, any 256-bit hash", "contains_hash never panics; every probe < 8*len", tier="thorough")
H("G-BLOOM", "bloom_contains_total_b1_p7", "C23 C15", "any u32 entry count and bits-per-entry, 1 bit byte(s) of any content, probe count 7, any 256-bit hash", "contains_hash never panics; every probe < 8*len", tier="quick")
H("G-BLOOM", "bloom_contains_total_b2_p2", "C23 C15", "any u32 entry count and bits-per-entry, 2 bit byte(s) of any content, probe count 2, any 256-bit hash", "contains_hash never panics; every probe < 8*len", tier="quick")
H("G-BLOOM", "bloom_contains_total_b2_p7", "C23 C15", "any u32 entry count and bits-per-entry, 2 bit byte(s) of any content, probe count 7, any 256-bit hash", "contains_hash never panics; every probe < 8*len", tier="thorough")
H("G-BLOOM", "bloom_contains_total_b3_p3", "C23 C15", "any u32 entry count and bits-per-entry, 3 bit byte(s) of any content, probe count 3, any 256-bit hash", "contains_hash never panics; every probe < 8*len", tier="thorough")
H("G-BLOOM", "bloom_contains_total_b3_p7", "C23 C15", "any u32 entry count and bits-per-entry, 3 bit byte(s) of any content, probe count 7, any 256-bit hash", "contains_hash never panics; every probe < 8*len", tier="quick")
H("G-BLOOM", "bloom_contains_total_b3_p8", "C23 C15", "any u32 entry count and bits-per-entry, 3 bit byte(s) of any content, probe count 8, any 256-bit hash", "contains_hash never panics; every probe < 8*len", tier="thorough")
H("G-BLOOM", "bloom_parse_total_len3", "C23 C15 C17", "every 3-byte input", "parser total; accepted bits length = ceil(n*b/8) <= input")
H("G-BLOOM", "bloom_parse_total_len4", "C23 C15 C17", "every 4-byte input", "parser total; accepted bits length consistent")
H("G-BLOOM", "bloom_parse_total_len5", "C23 C15 C17", "every 5-byte input", "parser total", tier="thorough")
H("G-BLOOM", "bloom_parse_total_len6", "C23 C15 C17", "every 6-byte input", "parser total", tier="thorough")
H("G-BLOOM", "bloom_bits_capacity_b0", "C23 C15 C17", "bits-per-entry (resp. entry count) fixed to 0, the other factor ANY u32; loop-free", "bits_capacity (f64 arithmetic) = ceil(e*b/8) in 64-bit integers (exact below 2^53), symmetric in its arguments")
H("G-BLOOM", "bloom_bits_capacity_b1", "C23 C15 C17", "bits-per-entry (resp. entry count) fixed to 1, the other factor ANY u32; loop-free", "bits_capacity (f64 arithmetic) = ceil(e*b/8) in 64-bit integers (exact below 2^53), symmetric in its arguments")
H("G-BLOOM", "bloom_bits_capacity_b4", "C23 C15 C17", "bits-per-entry (resp. entry count) fixed to 4, the other factor ANY u32; loop-free", "bits_capacity (f64 arithmetic) = ceil(e*b/8) in 64-bit integers (exact below 2^53), symmetric in its arguments")
H("G-BLOOM", "bloom_bits_capacity_b10", "C23 C15 C17", "bits-per-entry (resp. entry count) fixed to 10, the other factor ANY u32; loop-free", "bits_capacity (f64 arithmetic) = ceil(e*b/8) in 64-bit integers (exact below 2^53), symmetric in its arguments")
H("G-BLOOM", "bloom_bits_capacity_b65536", "C23 C15 C17", "bits-per-entry (resp. entry count) fixed to 65536, the other factor ANY u32; loop-free", "bits_capacity (f64 arithmetic) = ceil(e*b/8) in 64-bit integers (exact below 2^53), symmetric in its arguments")
H("G-BLOOM", "bloom_bits_capacity_b40000000", "C23 C15 C17", "bits-per-entry (resp. entry count) fixed to 1073741824, the other factor ANY u32; loop-free", "bits_capacity (f64 arithmetic) = ceil(e*b/8) in 64-bit integers (exact below 2^53), symmetric in its arguments")
H("G-BLOOM", "bloom_probe_budget_b1", "C17 C23", "1 bit byte, ANY u32 probe count / entries / bits-per-entry, any hash; unwind 10 = 8*len+2 is the step budget",
  "get_probes allocates and iterates at most 8*len times whatever probe count the wire claims", unwind_is_budget=True)
H("G-BLOOM", "bloom_probe_budget_b2", "C17 C23", "2 bit bytes, any u32 probe count; unwind 18 = 8*len+2 is the step budget",
  "as above", unwind_is_budget=True, tier="thorough")
H("G-BLOOM", "bloom_decode_then_query_e1_b0", "C23 C15 C37", "wire bytes [1, 0, p] for every p < 128, any query hash; BloomFilter::parse (the body of TryFrom<&[u8]>) + contains_hash",
  "decode then query never panics (the former remainder-by-zero input)")

# ---------------------------------------------------------------------------------------------
PROPS["C01"] = {
    "decided": "the id order every replica uses to pick winners and sibling order is one strict total order (Lamport counter, "
               "then actor index) and is invariant under the actor-table renumbering a replica performs when it learns a new actor",
    "outside": ["BatchApply::apply / Untangler / MapWalker merging ops into columns", "merge, load, load_incremental, sync delivery "
                "(document operations: a single concrete doc.get does not finish under Kani in 20 min)"],
}
PROPS["C02"] = {
    "decided": "greatest (counter, actor) wins / higher-id siblings first: the comparison itself; a non-counter increment "
               "overwrites, a counter increment does not (normalize_increment_successors)",
    "outside": ["top/visible indexes, InsertQuery, hydrate: column-backed document operations"],
}
PROPS["C19"] = {
    "decided": "id arithmetic under actor renumbering",
    "outside": ["exid_to_opid against a live document"],
}
PROPS["C30"] = {
    "decided": "with_new_actor keeps every id pointing at the same actor bytes after any insertion into the sorted actor table; "
               "root is a fixed point",
    "outside": ["exid_to_opid's fallback lookup", "Automerge::insert_actor rewriting the columns"],
}

SETUP_HARNESS = {"automerge": "types::verif_kani::ord_accessors"}

PROPS["C23"] = {
    "decided": "no false negatives for 1-3 entries over all 256-bit hashes, also after encode/decode; contains_hash is total on every "
               "filter the decoder can produce (bit array <= 3 bytes, probes <= 8); the decoder is total on all inputs of 3-6 bytes",
    "outside": ["filters with thousands of entries (the probe arithmetic is per hash; u32 overflow of 8*bits.len() at 512 MiB filters is not covered)",
                "probe counts above 8 (see C17)"],
}

# further groups live in lib/reg_*.py (same helpers: group, H, PROPS)
import glob as _glob, os as _os
for _f in sorted(_glob.glob(_os.path.join(_os.path.dirname(_os.path.abspath(__file__)), "reg_*.py"))):
    exec(compile(open(_f).read(), _f, "exec"))
