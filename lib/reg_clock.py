group("G-CLOCK", "automerge", "am_clock.rs", "clock",
      ["clock::Clock::{covers,isolate,from_iter}", "clock::ClockRange::{visible_after,visible_before,predates,after,current,default}",
       "clock::SeqClock::{new,include,merge,covers,get_for_actor,rewrite_with_new_actor,remove_actor}"],
      assumptions=["clocks over 3 actors (Vec of length 3); ids whose actor index is inside the clock (Clock::covers documents the panic otherwise)"])
H("G-CLOCK", "clock_covers_is_counter_le_entry", "C07", "3 actors, all u32 entries, all ids; unwind 5", "covers(id) <=> counter <= clock[actor]; monotone in the clock")
H("G-CLOCK", "clock_isolate", "C07", "3 actors, all entries, all ids", "isolate(a) covers every op of a, leaves other actors' visibility unchanged")
H("G-CLOCK", "clock_range_visibility", "C07", "two arbitrary 3-actor clocks, all ids", "ClockRange Diff/Current visibility = the respective clock's covers")
H("G-CLOCK", "seqclock_include_is_max", "C07", "3 actors, all entries, any Option<u32> datum", "include = raise entry to max(old, data); false => unchanged")
H("G-CLOCK", "seqclock_merge_and_covers", "C07", "two arbitrary 3-actor SeqClocks", "merge = pointwise max (idempotent, commutative, upper bound); covers = pointwise >=")
H("G-CLOCK", "seqclock_order_independent", "C07", "3 inclusions of arbitrary (actor, Option<u32>) in two orders and as merge of parts", "clock does not depend on inclusion order; merge of parts = clock of union")
H("G-CLOCK", "seqclock_rewrite_with_new_actor", "C07 C30", "3-actor clock, insertion index 0..=3; unwind 6", "renumbering keeps every other actor's entry; remove_actor is the inverse")
H("G-CLOCK", "clock_from_iter", "C07", "3 arbitrary Option<u32>", "missing entry = 0")
PROPS["C07"] = {
    "decided": "the visibility predicate all *_at reads apply (Clock::covers, ClockRange) is exactly 'op counter <= the clock entry of its "
               "actor'; SeqClock include/merge/covers are the lattice operations (max, pointwise max, pointwise >=) so a clock built by "
               "merging cached clocks equals one built by inclusion in any order (3 actors, 3 inclusions)",
    "outside": ["ChangeGraph::clock_at / the cached-clock walk over a real change graph (hexane columns)", "the slow-path op walks, fork_at, "
                "and every read that needs a document"],
}
