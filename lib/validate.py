#!/usr/bin/env python3
"""Validate MANIFEST.json and every evidence file against the schemas in /root/.vp (needs jsonschema: run with python3-vt)."""
import json, sys, glob, os
import jsonschema
V = os.path.dirname(os.path.dirname(os.path.abspath(__file__)))
ok = True
m = json.load(open(V + "/MANIFEST.json"))
jsonschema.validate(m, json.load(open("/root/.vp/MANIFEST.schema.json")))
ids = [json.loads(l)["id"] for l in open(V + "/properties.jsonl")]
claimed = [c["property_id"] for c in m["checks"]]
na = [c["property_id"] for c in m.get("not_applicable", [])]
for i in ids:
    if (i in claimed) == (i in na):
        print("property", i, "claimed/not_applicable mismatch"); ok = False
import subprocess
tracked = set(subprocess.run(["git", "-C", V, "ls-files", "evidence"], stdout=subprocess.PIPE).stdout.decode().split())
for c in m["checks"]:
    rel = os.path.relpath(c["evidence_file"], V)
    if not os.path.exists(c["evidence_file"]):
        print("claimed property", c["property_id"], "has no evidence file"); ok = False
    elif rel not in tracked:
        print("claimed property", c["property_id"], "evidence file is not committed:", rel); ok = False
es = json.load(open("/root/.vp/EVIDENCE.schema.json"))
for f in sorted(glob.glob(V + "/evidence/*.json")):
    try:
        jsonschema.validate(json.load(open(f)), es)
    except Exception as e:
        print("EVIDENCE INVALID", f, str(e)[:300]); ok = False
print("manifest ok; claimed %d, n/a %d, evidence files %d" % (len(claimed), len(na), len(glob.glob(V + "/evidence/*.json"))))
sys.exit(0 if ok else 1)
