# G-IDS (cursor string decoder) and G-IDCONV (external id / cursor -> internal id on a real document).
group("G-IDS", "automerge", "am_cursor.rs", "cursor",
      ["<Cursor as TryFrom<&str>>::try_from", "cursor::Cursor::from_str", "<ActorId as TryFrom<&str>>::try_from", "hex::decode (dependency, from source)",
       "core::str::{find, parse::<u64>, slicing} (std, from source)"],
      assumptions=["strings are ASCII of the stated fixed length, or one fixed multi-byte scalar followed by an ASCII tail (str::from_utf8 over symbolic bytes does not finish under CBMC, so &str values are built from constrained bytes)"])
UW_TINYVEC = [(r"try_from_fn_erased.*tinyvec", 18)]
H("G-IDS", "cursor_str_total_len0", "C15 C37", "the empty string", "Cursor::try_from(\"\") returns an error", unwindset=UW_TINYVEC)
H("G-IDS", "cursor_str_total_len1", "C15 C37", "every 1-byte ASCII string; unwind 7", "total; only \"s\" and \"e\" accepted", unwindset=UW_TINYVEC)
H("G-IDS", "cursor_str_total_len2", "C15 C37", "every 2-byte ASCII string; unwind 7 (tinyvec's 16-slot default loop: 18)", "total", unwindset=UW_TINYVEC, timeout=600)
H("G-IDS", "cursor_str_total_len3", "C15 C37", "every 3-byte ASCII string", "total", unwindset=UW_TINYVEC, tier="thorough")
H("G-IDS", "cursor_str_total_len4", "C15 C37", "every 4-byte ASCII string", "total", unwindset=UW_TINYVEC, tier="thorough")
H("G-IDS", "cursor_str_total_2byte_first_t0", "C15 C37", "\"\\u{e9}\" alone", "a multi-byte first character is rejected, not sliced through", unwindset=UW_TINYVEC)
H("G-IDS", "cursor_str_total_2byte_first_t2", "C15 C37", "\"\\u{e9}\" + every 2-byte ASCII tail", "total", unwindset=UW_TINYVEC, tier="thorough")
H("G-IDS", "cursor_str_total_3byte_first_t1", "C15 C37", "\"\\u{20ac}\" + every 1-byte ASCII tail", "total", unwindset=UW_TINYVEC)
H("G-IDS", "cursor_str_total_4byte_first_t1", "C15 C37", "\"\\u{10000}\" + every 1-byte ASCII tail", "total", unwindset=UW_TINYVEC, tier="thorough")

group("G-IDCONV", "automerge", "am_root.rs", "",
      ["Automerge::new", "Automerge::exid_to_opid", "Automerge::op_cursor_to_opid", "OpSet::{get_actor_safe,lookup_actor}", "types::OpId::new / try_new",
       "Clock::covers"],
      stubs=["ActorId::random -> fixed 2-byte actor (the document's own actor is never consulted by the conversion)",
             "RandomState::new -> fixed SipHash keys (no hash map is read by the conversion)", "alloc::fmt::format -> empty String (error messages are not inspected)",
             "<ExId as Display>::fmt -> writes nothing (the InvalidObjId message; formatting a symbolic u64 cost 570 of 650 s)"],
      assumptions=["document = Automerge::new() with the sorted actor table [0x33, 0x55] (exid harness) resp. [0x33] (cursor harness) pushed in directly: the conversion reads only the actor table"])
H("G-IDCONV", "idconv_exid_to_opid_total", "C37 C15 C30 C19", "ANY u64 counter, ANY usize actor-index hint, id naming either actor of a 2-actor table or an absent actor; unwind 18",
  "Ok(counter, index of the id's actor) through the hint or the lookup fallback; Err for an unknown actor (never another actor's object) or a counter above u32::MAX; never panics", timeout=900,
  native_grid="replay_grid_idconv_exid_to_opid")
H("G-IDCONV", "idconv_op_cursor_to_opid_total", "C37 C15", "any u64 counter, either move mode; unwind 18", "as above for cursors", timeout=900, native_grid="replay_grid_idconv_op_cursor_to_opid")

group("G-EXID", "automerge", "am_exid.rs", "exid",
      ["exid::ExId::to_bytes", "types::ActorId::{from(&[u8]),to_bytes}", "leb128::write::unsigned (dependency, from source)",
       "storage::parse::{leb128_u64,take_n,Input::new} (used as the reader of the framing)"],
      assumptions=["actor content fixed (0x5a repeated), actor LENGTH 1 / 16 / 127 / 128 (both sides of the 1-byte / 2-byte length prefix and of tinyvec's inline / heap split)"])
for _l, _t in ((1, "quick"), (16, "thorough"), (127, "quick"), (128, "quick")):
    H("G-EXID", "exid_bytes_framing_actor%d" % _l, "C19 C30", "actor of %d bytes, counter and hint ANY value < 2^14 (two-byte varints; wider values make the output Vec reallocate at a symbolic length: 122M clauses, timeout); unwind 12 (tinyvec default loop 18)" % _l,
      "to_bytes = tag 0x10, uLEB(actor length), actor bytes, uLEB(hint), uLEB(counter), nothing after", tier=_t, timeout=600)

group("G-CURSORENC", "automerge", "am_cursor.rs", "cursor",
      ["cursor::Cursor::to_bytes", "leb128::write::unsigned (dependency, from source)"],
      assumptions=["actor content fixed (0x5a repeated), actor length 1 / 16 / 128; counter < 2^14 (see G-EXID)"])
for _l, _t in ((1, "quick"), (16, "thorough"), (128, "quick")):
    H("G-CURSORENC", "cursor_bytes_framing_actor%d" % _l, "C19", "actor of %d bytes, counter ANY value < 2^14, both move modes; Start and End" % _l,
      "to_bytes = version 1, tag, uLEB(actor length), actor bytes, uLEB(counter), move tag", tier=_t, timeout=600)
H("G-CURSORENC", "cursor_display_format", "C19", "counter 0..=9, one-byte actor of ANY value, both move modes; unwind 8 (tinyvec default loop 18)",
  "Display = ['-' iff Before] counter '@' lowercase hex of the actor", unwindset=UW_TINYVEC, timeout=600)
H("G-EXID", "exid_identity_ignores_hint", "C19 C30", "two ids: ANY u64 counters, one-byte actors of ANY value, ANY usize hints; unwind 6 (tinyvec default loop 18)",
  "== <=> same counter and actor (the replica-local hint is ignored); Ord = (counter, actor) and agrees with ==; Root least", unwindset=UW_TINYVEC + [(r"^memcmp\.", 4)], timeout=600)
H("G-IDCONV", "idconv_import_obj_total", "C15 C37", "every string `d@xy`: d a decimal digit, x and y ANY ASCII bytes; document with actor table [0x33]; unwind 8 (tinyvec default loop 18)",
  "import_obj returns Ok exactly for the hex of a known actor and an error otherwise; a non-hex / odd-length actor part is reported, never unwrapped",
  unwindset=UW_TINYVEC, tier="thorough", timeout=1800, native_grid="replay_grid_idconv_import_obj")
