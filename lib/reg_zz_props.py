# What each claimed property's check decides / leaves outside (evidence + manifest text). DESIGN.md section 4.
PROPS["C04"] = {
    "decided": "head maintenance: after applying a causally ordered sequence of changes with symbolic dependency edges, heads = the applied changes no applied change depends on; heads_are_current compares as sets",
    "outside": ["transaction_args (seq/start_op/deps of a new change)", "ChangeGraph::add_changes column appends"],
}
PROPS["C05"] = {
    "decided": "causal queue: a queued change with a missing dependency is never released and stays indexed; it is released exactly when its last missing ancestor is applied or released with it; release order is causal; remove_actor_branch_from removes exactly the named suffix and its dependents",
    "outside": ["get_missing_deps and the visible effect on the document"],
}
PROPS["C06"] = {
    "decided": "a failing ChangeBatch::push (duplicate actor/seq) leaves the batch exactly as it was; the decoders checked under C15 are pure functions of their input bytes",
    "outside": ["rejected transaction operations, load_incremental of bad bytes, actor-table bookkeeping: document operations"],
}
PROPS["C12"] = {
    "decided": "the framing that makes concatenation work: Input::split + reset hands the next chunk exactly the remaining bytes; a chunk header is self-delimiting (parse(write(h) ++ data ++ rest) leaves exactly rest)",
    "outside": ["save_after, change bodies, apply_changes (document operations)"],
}
PROPS["C13"] = {
    "decided": "for every accepted chunk header every strict prefix of the chunk is rejected as incomplete (never parsed as a shorter valid chunk, never a panic); the Input combinators never read outside the buffer",
    "outside": ["which document results from a partial load (needs load)", "OnPartialLoad handling in load_with_options"],
}
PROPS["C14"] = {
    "decided": "the stored checksum is compared on all 32 bits against the hash of the chunk: any single-bit flip in the checksum field or the magic bytes is rejected for every hash value; an unknown chunk type is rejected",
    "outside": ["flips in length or data bytes: detection rests on SHA-256's first 32 bits changing (cryptographic assumption; SHA-256 is stubbed by an arbitrary hash)", "DEFLATE streams"],
}
PROPS["C15"] = {
    "decided": "these decoders are total (Ok/Err, no panic, no out-of-bounds, no overflow, loops within the unwind bound) on every input of each fixed length within the bound: Bloom filter decode + query, LEB128 and parser combinators, chunk header, sync State::decode (inputs of 2-3 bytes) and the sync message flags section",
    "outside": ["load, load_incremental, Change::from_bytes, bundles, rescue, import_obj: document operations or behind a Kani internal compiler error",
                "Cursor::try_from (bytes and strings), ObjId::try_from, ActorId / ChangeHash string parsing, Message::decode: no harness finishes (str::from_utf8 and TinyVec copies over symbolic input exceed 5 min / 45 GB under Kani); the panics of Cursor::try_from(\"\") and of ids with counter >= 2^32 seen natively (DESIGN.md section 7) are therefore NOT reported by this check",
                "inputs longer than the stated fixed lengths"],
}
PROPS["C17"] = {
    "decided": "step budgets as unwinding assertions: over an n-byte input no loop of the LEB128 parsers, length_prefixed/apply_n with the element parsers used, State::decode or the Bloom probe loop iterates more than the stated bound (linear in n); take_n compares the length before slicing and allocates nothing",
    "outside": ["ChangeCollector::try_new's guard and document loading", "memory consumed by decoded documents"],
}
PROPS["C18"] = {
    "decided": "leaf encodings round-trip: LEB128 (all u64/i64) against the writer the repository uses, ulebsize/lebsize, chunk header write/parse",
    "outside": ["Change::try_from(&[u8]), From<ExpandedChange>, bundles, DEFLATE (Change::parse is behind a Kani internal compiler error)"],
}
PROPS["C19"]["decided"] = ("sync state (State::encode -> State::decode, 0 or 1 shared heads of any value), sync message flags and the Bloom filter "
                           "wire form decode back to equal values; id arithmetic is invariant under actor renumbering (a renumbered id names the same actor bytes)")
PROPS["C19"]["outside"] = ["ExId / Cursor byte and string encodings (ExId round trip ran out of memory at 45 GB, Cursor::try_from over 2-4 symbolic bytes exceeded 5 min under Kani)",
                           "Message::encode / decode as a whole", "exid_to_opid / cursor resolution against a live document"]
PROPS["C21"] = {
    "decided": "State::decode(State::encode(s)) keeps exactly shared_heads (0 or 1 heads of any value) and resets every session field for any prior session flags, so a restored state never carries in_flight or stale sent_hashes",
    "outside": ["the network, message loss, convergence (document operations)"],
}
PROPS["C22"] = {
    "decided": "State::set_read_only transition table from any state of a fixed container shape with arbitrary flags; new_read_only; READ_ONLY / SYNC_RESET / SUPPORTS_SYNC_RESET flags survive encode/parse independently of each other and of legacy bytes",
    "outside": ["that receive_sync_message skips applying changes when read-only (document operation)"],
}
PROPS["C24"] = {
    "decided": "TextEncoding::width for code-point, UTF-8 and UTF-16 encodings equals the respective unit count, additive over concatenation",
    "outside": ["grapheme clusters", "the per-op width index and index translation in splice/marks/cursors"],
}
PROPS["C25"] = {
    "decided": "mark state machine: the value of a mark name is that of the highest-id covering mark; null means unmarked",
    "outside": ["calculate_marks fast vs slow paths, sticky marks at boundaries, expand rules, convergence"],
}
PROPS["C27"] = {
    "decided": "the edit script myers::diff emits, applied to old, yields new, with in-range indices",
    "outside": ["TxHook index bookkeeping in encoding units, update_object, update_spans, batch_create_object"],
}
PROPS["C37"] = {
    "decided": "argument decoders of the public API (cursor / object id from strings and bytes) never panic; converting a decoded id with any u64 counter into an internal id returns a value or an error instead of panicking",
    "outside": ["every call that takes a document"],
}
PROPS["C38"] = {
    "decided": "ChangeBatch::push rejects a second change with the same (actor, seq) and a different hash in every arrival order and accepts the same hash again as a no-op; has_actor_seq reflects exactly the queued pairs",
    "outside": ["Automerge::has_actor_seq, ChangeGraph::add_changes' assertion, load and sync paths"],
}

# Properties with a text above but fewer than two calibrated quick harnesses are NOT claimed; the manifest carries these reasons.
_NA = {
    "C04": "ChangeGraph (update_heads / heads) keeps its nodes in hexane columns and hash maps keyed by 32-byte hashes; building even a 2-change graph needs Column pushes, which do not finish under Kani (3 pushes > 10 min); no harness calibrated",
    "C05": "ChangeQueue / ChangeBatch are BTreeMap + HashMap structures over 32-byte hashes: the smallest harness (3 changes, unwind 34 for the hash loops) exceeded 15 min under Kani; not calibrated, not claimed",
    "C06": "the only solver-reachable kernel is ChangeBatch::push (see C05: exceeds 15 min); everything else is a document operation",
    "C24": "TextEncoding::width iterates str::chars over symbolic UTF-8: one symbolic char exceeded 5 min under Kani; the width index itself lives in the op store",
    "C25": "MarkStateMachine holds Arc/SmolStr/BTreeMap values: 3 symbolic events exceeded 6 min under Kani; calculate_marks needs a document",
    "C27": "myers::diff recurses (conquer) and Kani's unwind bound also unwinds the recursion: a 2x2 input exceeded 5.5 min at unwind 5; TxHook bookkeeping needs a document",
    "C37": "every public call takes a document except the id/cursor decoders, and those do not finish under Kani (Cursor::try_from over 2-4 symbolic bytes > 5 min, ExId round trip out of memory at 45 GB); a single Bloom harness is not a claim",
    "C38": "ChangeBatch::push / has_actor_seq: same structures as C05, smallest harness exceeded 15 min",
}
for _k, _v in _NA.items():
    PROPS[_k]["na_reason"] = _v
