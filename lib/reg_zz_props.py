# What each claimed property's check decides / leaves outside (evidence + manifest text). DESIGN.md section 4.
PROPS["C04"] = {
    "decided": "head maintenance: after applying a causally ordered sequence of changes with symbolic dependency edges, heads = the applied changes no applied change depends on; heads_are_current compares as sets",
    "outside": ["transaction_args (seq/start_op/deps of a new change)", "ChangeGraph::add_changes column appends"],
}
PROPS["C05"] = {
    "decided": "causal queue: a queued change with a missing dependency is never released and stays indexed; it is released exactly when its last missing ancestor is applied or released with it; release order is causal; remove_actor_branch_from removes exactly the named suffix and its dependents",
    "outside": ["get_missing_deps and the visible effect on the document"],
}
PROPS["C06"] = {
    "decided": "a failing ChangeBatch::push (duplicate actor/seq) leaves the batch exactly as it was; the decoders checked under C15 are pure functions of their input bytes",
    "outside": ["rejected transaction operations, load_incremental of bad bytes, actor-table bookkeeping: document operations"],
}
PROPS["C12"] = {
    "decided": "the framing that makes concatenation work: Input::split + reset hands the next chunk exactly the remaining bytes; a chunk header is self-delimiting (parse(write(h) ++ data ++ rest) leaves exactly rest); Header::new announces exactly the bytes Header::write emits for ANY data length up to 4 MiB (the offsets Document::new / Chunk::parse derive from it)",
    "outside": ["save_after, change bodies, apply_changes (document operations)"],
}
PROPS["C13"] = {
    "decided": "for every accepted chunk header every strict prefix of the chunk is rejected as incomplete (never parsed as a shorter valid chunk, never a panic); the Input combinators never read outside the buffer; the header length a writer announces for ANY data length up to 4 MiB is the length actually written, so a chunk boundary computed by the writer is one the reader accepts",
    "outside": ["which document results from a partial load (needs load)", "OnPartialLoad handling in load_with_options"],
}
PROPS["C14"] = {
    "decided": "the stored checksum is compared on all 32 bits against the hash of the chunk: any single-bit flip in the checksum field or the magic bytes is rejected for every hash value; an unknown chunk type is rejected; a compressed change chunk is valid only if the outer checksum equals the inner one AND the inner one matches the hash of the inflated change (Chunk::checksum_valid); a corrupted element count cannot size an allocation before the checksum is looked at",
    "outside": ["flips in length or data bytes: detection rests on SHA-256's first 32 bits changing (cryptographic assumption; SHA-256 is stubbed by an arbitrary hash)", "DEFLATE streams"],
}
PROPS["C15"] = {
    "decided": "these decoders are total (Ok/Err, no panic, no out-of-bounds, no overflow, loops within the unwind bound) on every input of each fixed length within the bound: Bloom filter decode + query, LEB128 and parser combinators, chunk header, sync State::decode (inputs of 2-3 bytes), the sync message flags section, Cursor::try_from(&str) (ASCII strings of 0..=2 bytes quick / ..=4 thorough, and a multi-byte first character), resolving an object id / cursor with ANY counter and actor-index hint against a real document's actor table (exid_to_opid, op_cursor_to_opid), hexane's varint codec, value unpackers (incl. length prefixes near u64::MAX) and the RLE validator followed by the unchecked decoder on every 2-5 byte slab of an integer column",
    "outside": ["load, load_incremental, Change::from_bytes, bundles, rescue, import_obj: document operations or behind a Kani internal compiler error",
                "Cursor::try_from(&[u8]), ObjId::try_from(&[u8]), Message::decode: every rung exceeded 300-900 s under Kani even on a 0/1-byte input (the cost is the AutomergeError / ReadMessageError result types, not the input); ChangeHash / ActorId FromStr on their own; import_obj (its hex::decode(..).unwrap() on a bad actor is visible by reading, DESIGN.md section 7)",
                "hexane String / Option<String> RLE slabs and the skipping read (nth): past 1800 s",
                "inputs longer than the stated fixed lengths"],
}
PROPS["C17"] = {
    "decided": "step budgets as unwinding assertions: over an n-byte input no loop of the LEB128 parsers, length_prefixed/apply_n with the element parsers used, State::decode or the Bloom probe loop iterates more than the stated bound (linear in n); take_n compares the length before slicing and allocates nothing; a count prefix of u64::MAX / 2^63 (concrete witnesses) sizes no allocation; the Bloom bit-array size demanded from the wire is ceil(entries*bits/8) exactly; a hexane length prefix near u64::MAX cannot wrap header+length into a small offset",
    "outside": ["ChangeCollector::try_new's guard and document loading", "memory consumed by decoded documents"],
}
PROPS["C18"] = {
    "decided": "leaf encodings round-trip: LEB128 (all u64/i64) against the writer the repository uses, ulebsize/lebsize, chunk header write/parse, header length = bytes written for ANY data length up to 4 MiB",
    "outside": ["Change::try_from(&[u8]), From<ExpandedChange>, bundles, DEFLATE (Change::parse is behind a Kani internal compiler error)"],
}
PROPS["C19"]["decided"] = ("sync state (State::encode -> State::decode, 0 or 1 shared heads of any value), sync message flags and the Bloom filter "
                           "wire form decode back to equal values; id arithmetic is invariant under actor renumbering (a renumbered id names the same actor bytes); "
                           "ExId::to_bytes and Cursor::to_bytes write exactly the documented framing (actor lengths on both sides of the 1/2-byte length prefix, counter/hint < 2^14); "
                           "Display of a cursor keeps the '-' of MoveCursor::Before; exid_to_opid resolves an id through the hint or, when the hint is stale or out of range, "
                           "through the actor lookup to the same actor, for ANY counter and hint; two ids are == exactly when counter and actor agree (the replica-local hint takes no part in ==, Ord)")
PROPS["C19"]["outside"] = ["the DEcoders ExId::try_from(&[u8]) / Cursor::try_from(&[u8]) (see C15) and therefore byte round trips as a whole; actor CONTENT beyond first/last byte",
                           "Message::encode / decode as a whole", "exid_to_opid / cursor resolution against a live document"]
PROPS["C21"] = {
    "decided": "State::decode(State::encode(s)) keeps exactly shared_heads (0 or 1 heads of any value) and resets every session field for any prior session flags, so a restored state never carries in_flight or stale sent_hashes",
    "outside": ["the network, message loss, convergence (document operations)"],
}
PROPS["C22"] = {
    "decided": "State::set_read_only transition table from any state of a fixed container shape with arbitrary flags; new_read_only; READ_ONLY / SYNC_RESET / SUPPORTS_SYNC_RESET flags survive encode/parse independently of each other and of legacy bytes; peer_supports_sync_reset / supports_v2_messages / send_doc look for exactly their capability over every capability list of length 0..=2",
    "outside": ["that receive_sync_message skips applying changes when read-only, and the SYNC_RESET handling inside receive_sync_message_inner (document operations)"],
}
PROPS["C24"] = {
    "decided": "TextEncoding::width for code-point, UTF-8 and UTF-16 encodings equals the respective unit count, additive over concatenation",
    "outside": ["grapheme clusters", "the per-op width index and index translation in splice/marks/cursors"],
}
PROPS["C25"] = {
    "decided": "mark state machine: the value of a mark name is that of the highest-id covering mark; null means unmarked",
    "outside": ["calculate_marks fast vs slow paths, sticky marks at boundaries, expand rules, convergence"],
}
PROPS["C27"] = {
    "decided": "the edit script myers::diff emits, applied to old, yields new, with in-range indices",
    "outside": ["TxHook index bookkeeping in encoding units, update_object, update_spans, batch_create_object"],
}
PROPS["C37"] = {
    "decided": "resolving a caller-supplied object id or cursor (the first step of every read and edit call that takes one) never panics: Automerge::exid_to_opid / op_cursor_to_opid on a real document return Ok or InvalidObjId / InvalidCursor for ANY u64 counter, ANY actor-index hint and a known or unknown actor; Cursor::try_from(&str) never panics on the stated strings; querying a decoded Bloom filter never panics",
    "outside": ["everything a call does after resolving its id (index / range checks, heads validation, marks): document operations", "hydrate::Value::apply_patches (sequence tree)"],
}
PROPS["C30"]["decided"] = ("with_new_actor keeps every id pointing at the same actor bytes after any insertion into the sorted actor table (root is a fixed point); "
                           "exid_to_opid on a real document resolves an id to ITS actor's index whatever the hint says (stale, out of range) and rejects an id whose actor the replica "
                           "does not know - never another actor's object - and a counter that cannot name an op; ExId::to_bytes framing; id equality / order ignore the replica-local hint")
PROPS["C30"]["outside"] = ["get_obj_meta and everything after the id is resolved", "Automerge::insert_actor rewriting the columns", "ExId::try_from(&[u8])"]
PROPS["C38"] = {
    "decided": "ChangeBatch::push rejects a second change with the same (actor, seq) and a different hash in every arrival order and accepts the same hash again as a no-op; has_actor_seq reflects exactly the queued pairs",
    "outside": ["Automerge::has_actor_seq, ChangeGraph::add_changes' assertion, load and sync paths"],
}

# Properties with a text above but fewer than two calibrated quick harnesses are NOT claimed; the manifest carries these reasons.
_NA = {
    "C04": "the only kernel that does not need column appends is the head set (BTreeSet<ChangeHash>): heads_are_current over heads {h1,h2} and a 0-3 element query did not finish in 900 s under Kani (BTreeSet insert/collect/== with 32-byte keys); transaction_args and add_changes are document operations",
    "C05": "ChangeQueue / ChangeBatch are std HashSet / HashMap structures over 32-byte hashes: ChangeBatch::push twice (real Change values, per-loop unwind bounds) exceeded 900 s, and a bare HashSet<ChangeHash> with two inserts exceeded 300 s even with the hasher stubbed to a constant (hashbrown's SIMD group probing under CBMC); not claimed",
    "C06": "the only kernel outside the document is ChangeBatch::push (see C05: std HashSet does not finish under CBMC); everything else is a document operation",
    "C24": "TextEncoding::width iterates str::chars over symbolic UTF-8: one symbolic char exceeded 5 min under Kani; the width index itself lives in the op store",
    "C25": "MarkStateMachine holds Arc/SmolStr/BTreeMap values: 3 symbolic events exceeded 6 min under Kani; calculate_marks needs a document",
    "C27": "myers::diff on a 1x1 input over a two-letter alphabet exceeded 400 s under Kani even with conquer's recursion bounded separately (--unwindset on the function): the `(-d..=d).rev().step_by(2)` loops of find_middle_snake and the zip/take_while/count chains of common_prefix_len bit-blast 64-bit divisions per iteration; TxHook bookkeeping, update_object, update_spans and batch_create_object need a document",
    "C38": "ChangeBatch::push / has_actor_seq: same std HashSet structures as C05 (two pushes > 900 s under CBMC); the other mechanisms are document operations",
}
for _k, _v in _NA.items():
    PROPS[_k]["na_reason"] = _v
