#!/usr/bin/env python3
"""Regenerate /verif/MANIFEST.json from lib/registry.py (claimed properties) and the not-applicable table below."""
import json, os, subprocess, sys
V = os.path.dirname(os.path.dirname(os.path.abspath(__file__)))
sys.path.insert(0, V + "/lib")
import registry

NA = {
    "C03": "every mechanism edits the op store (hexane B-tree columns + hash maps); a concrete put does not finish under Kani in 20 min and commit hits a Kani internal compiler error; no kernel the solver can reach",
    "C08": "diff walks the op store and resolves patches against the document; no self-contained kernel within the solver's reach",
    "C09": "patch generation logs events that are resolved against the live document; no self-contained kernel/oracle",
    "C10": "change reconstruction from columns + SHA-256; sha2 reaches cpuid inline asm under Kani and a solver cannot decide anything useful about SHA-256",
    "C11": "Document::new/parse/reconstruct are column/B-tree code (and behind the Kani ICE); the wire leaves are claimed under C35/C18/C13",
    "C16": "needs load followed by document reads/edits/saves (document operations are out of reach of the solver)",
    "C20": "generate/receive_sync_message operate on the document; the solver-decidable ingredients are claimed under C21, C22, C23",
    "C26": "cursor resolution walks the op store (cursor encodings are decided under C19)",
    "C28": "rollback undoes op-store edits; document operation",
    "C29": "isolation is scoped reads/edits on the document (Clock::isolate is covered under C07)",
    "C31": "anonymize rewrites a whole document",
    "C32": "AutoSerde needs real keys/get/length; Keys is only constructible from an OpSet",
    "C33": "CLI binary + serde_json + document",
    "C34": "hexane Column (B-tree over byte slabs): three pushes into Column<u64> exceed 10 min under Kani; splice/slab logic is all heap",
    "C36": "FFI boundary and leak checking are outside Kani",
    "C40": "migration edits a loaded document",
}
PENDING = "harness group for this property is not built/calibrated yet in this tree; not claimed until it is"

LEVEL_NOTE = ("Bounded model checking of the real Rust code: Kani 0.68 compiles /repo's current source (MIR -> goto), CBMC "
              "6.11 + CaDiCaL decide every assertion, overflow/bounds/unwrap check and unwinding assertion for ALL values "
              "of the symbolic inputs within the bounds listed in the evidence. Trusted: rustc MIR, Kani's translation and "
              "std models (allocator never fails, dev profile), CBMC, the SAT solver, the harness oracles and the listed stubs. "
              "Counterexamples are replayed natively (cargo kani playback, dev and release) before a VIOLATION is printed.")


def main():
    ids = [json.loads(l)["id"] for l in open(V + "/properties.jsonl")]
    try:
        hook_commits = subprocess.run(["git", "-C", "/repo", "log", "--format=%H", "--grep=^verif-hook"],
                                      stdout=subprocess.PIPE).stdout.decode().split()
    except Exception:
        hook_commits = []
    checks, na = [], []
    for i in ids:
        quick = [h for h in registry.HARNESSES if i in h["props"] and h.get("tier", "quick") == "quick"]
        if i in registry.PROPS and len(quick) >= 2 and not registry.PROPS[i].get("disabled"):
            p = registry.PROPS[i]
            groups = sorted({h["group"] for h in registry.HARNESSES if i in h["props"]})
            checks.append({
                "property_id": i,
                "quick_cmd": "./check %s --tier quick" % i,
                "thorough_cmd": "./check %s --tier thorough" % i,
                "evidence_file": "/verif/evidence/%s.json" % i,
                "replay_cmd_template": "./check %s --replay {path}" % i,
                "engine": "kani-cbmc",
                "level_claimed": {
                    "category": "model_checking",
                    "text": "Kernel level, bounded: " + p["decided"] + ". Holds for all inputs within the per-harness bounds "
                            "(unwinding assertions on); outside the claim: " + "; ".join(p.get("outside", [])),
                    "design_ref": "DESIGN.md section 3 (%s) and section 4 (%s)" % (", ".join(groups), i),
                },
                "level_note": LEVEL_NOTE,
                "technique": "bounded model checking of the real code: Kani #[kani::proof] harnesses over kani::any() inputs, "
                             "CBMC + CaDiCaL SAT verdict, unwinding assertions, native replay of counterexamples",
            })
        elif i in NA:
            na.append({"property_id": i, "reason": NA[i]})
        else:
            na.append({"property_id": i, "reason": registry.PROPS.get(i, {}).get("na_reason", PENDING)})
    m = {
        "version": 1,
        "setup_cmd": "./check --setup",
        "hooks": {
            "guard": "cfg(kani) -- set only by the Kani compiler; each hooked module gets `#[cfg(kani)] mod verif_kani { include!(concat!(env!(\"AUTOMERGE_VERIF_DIR\"), \"/<file>.rs\")); }`",
            "enable": "cargo kani with AUTOMERGE_VERIF_DIR=/verif/harness (done by ./check)",
            "baseline_off_cmd": "cd /repo/rust && cargo nextest run --workspace --no-fail-fast --test-threads 8 --offline || cargo test --workspace --no-fail-fast --offline",
            "source_commits": hook_commits,
            "add_only": True,
        },
        "engines": [{
            "name": "kani-cbmc",
            "path": "/verif/harness",
            "serves_properties": [c["property_id"] for c in checks],
            "kind_free_text": "Kani 0.68.0 proof harnesses compiled inside the automerge and hexane crates (cfg(kani) include hooks), decided by CBMC 6.11.0 / CaDiCaL; runner /verif/check + /verif/lib",
        }],
        "checks": checks,
        "not_applicable": na,
        "notes": "Exit 2 from a check means inconclusive (timeout, out of memory, compiler error, unwinding assertion, vacuous harness, non-reproducing counterexample); it is never reported as a pass or as a violation. Scratch/build cache: $VERIF_WORK (default /var/tmp/automerge-verif), recreated when missing.",
    }
    json.dump(m, open(V + "/MANIFEST.json", "w"), indent=1)
    print("claimed:", " ".join(c["property_id"] for c in checks))
    print("n/a:", " ".join(x["property_id"] for x in na))


main()
