"""Runner for the Kani/CBMC harnesses that decide the automerge properties.

One check run = for every harness registered for the property at the requested tier:
  cargo kani (compiles /repo's current working tree, harness text from /verif/harness)
  -> per-harness verdict from Kani's exported JSON
  -> counterexamples are replayed natively (cargo kani playback) before they are reported
  -> evidence/<id>.json is written from the numbers of this run.

Exit codes: 0 = every harness holds within its bound (known findings printed),
            1 = a reproduced counterexample that known_findings.json does not list (VIOLATION line),
            2 = inconclusive (timeout, out of memory, compiler error, unwinding assertion, vacuous
                harness, counterexample that does not reproduce natively).
"""
import fnmatch
import json
import os
import re
import shutil
import subprocess
import sys
import time

VERIF = os.path.dirname(os.path.dirname(os.path.abspath(__file__)))
REPO = os.environ.get("VERIF_REPO", "/repo")
WORK = os.environ.get("VERIF_WORK", "/var/tmp/automerge-verif")
HARNESS_DIR = os.environ.get("VERIF_HARNESS_DIR", os.path.join(VERIF, "harness"))  # override: harness experiments on a copy
# where evidence / replay files go (overridden for runs against seeded mutants so /verif stays clean)
EVIDENCE_DIR = os.environ.get("VERIF_EVIDENCE_DIR", os.path.join(VERIF, "evidence"))
REPLAY_DIR = os.environ.get("VERIF_REPLAY_DIR", os.path.join(VERIF, "replays"))
CRATE_DIR = {"automerge": "rust/automerge", "hexane": "rust/hexane"}
MEM_LIMIT_KB = int(os.environ.get("VERIF_MEM_KB", str(14 * 1024 * 1024)))  # per process (RLIMIT_AS)

sys.path.insert(0, os.path.join(VERIF, "lib"))
import registry  # noqa: E402


def log(*a):
    print(*a, flush=True)


def base_env(seed, harness_dir=HARNESS_DIR):
    env = dict(os.environ)
    env["AUTOMERGE_VERIF_DIR"] = harness_dir
    env["AUTOMERGE_VERIF_SEED"] = str(seed)
    env["CARGO_NET_OFFLINE"] = "true"
    env.pop("RUSTFLAGS", None)
    env.pop("CARGO_TARGET_DIR", None)
    return env


def preflight():
    problems = []
    for crate, files in registry.HOOKED.items():
        for f in files:
            p = os.path.join(REPO, CRATE_DIR[crate], "src", f)
            try:
                s = open(p).read()
            except OSError:
                problems.append("missing " + p)
                continue
            if "mod verif_kani" not in s:
                problems.append("hook stanza missing in " + p)
    return problems


def select(prop, tier):
    hs = []
    for h in registry.HARNESSES:
        if prop not in h["props"]:
            continue
        if tier == "quick" and h.get("tier", "quick") != "quick":
            continue
        hs.append(h)
    return hs


PB_MEM_LIMIT_KB = int(os.environ.get("VERIF_PB_MEM_KB", str(36 * 1024 * 1024)))  # concrete playback: kani-driver parses CBMC's full JSON trace


def run_kani(crate, harnesses, seed, timeout_s, jobs, tag, extra=None, harness_dir=HARNESS_DIR, mem_kb=None):
    """One cargo kani invocation over several harnesses of one crate. Returns (json|None, log_text, rc, wall)."""
    os.makedirs(WORK, exist_ok=True)
    out_json = os.path.join(WORK, "out-%s-%d.json" % (tag, os.getpid()))
    log_path = os.path.join(WORK, "log-%s-%d.txt" % (tag, os.getpid()))
    if os.path.exists(out_json):
        os.remove(out_json)
    cmd = ["cargo", "kani", "--target-dir", os.path.join(WORK, "target-" + crate),
           "-Z", "stubbing", "-Z", "unstable-options",
           "--harness-timeout", "%ds" % timeout_s,
           "--export-json", out_json, "--output-format", "terse", "-j", str(jobs), "--exact"]
    for h in harnesses:
        cmd += ["--harness", h["name"]]
    if extra:
        cmd += extra
    shell = "ulimit -v %d; exec \"$@\"" % (mem_kb or MEM_LIMIT_KB)
    t0 = time.time()
    with open(log_path, "w") as lf:
        p = subprocess.run(["bash", "-c", shell, "kani"] + cmd, cwd=os.path.join(REPO, CRATE_DIR[crate]),
                           env=base_env(seed, harness_dir), stdout=lf, stderr=subprocess.STDOUT)
    wall = time.time() - t0
    text = open(log_path, errors="replace").read()
    data = None
    if os.path.exists(out_json):
        try:
            data = json.load(open(out_json))
        except Exception:
            data = None
        os.remove(out_json)
    return data, text, p.returncode, wall, log_path


UNWIND_RE = re.compile(r"unwinding assertion", re.I)


# ---------------------------------------------------------------------------------------------
# per-loop unwind bounds
#
# One global #[kani::unwind(n)] unrolls EVERY loop n times; a harness that needs 17 iterations for
# tinyvec's 16-slot default loop or 33 for a 32-byte memcmp would pay that everywhere. A harness may
# therefore register `unwindset=[(regex, bound), ...]`: the loop ids matching each regex (as listed
# by `cbmc --show-loops` on the harness's goto binary, regenerated from the current source) get that
# bound via `--cbmc-args --unwindset`, every other loop keeps the harness's global bound, and the
# unwinding assertions stay on for all of them.

def _goto_binary(crate, h):
    """Newest goto binary (after goto-instrument) Kani wrote for this harness."""
    fn = h["name"].rsplit("::", 1)[1]
    suffix = "%d%s.out" % (len(fn), fn)
    root = os.path.join(WORK, "target-" + crate, "kani")
    best = None
    for d, _, files in os.walk(root):
        for f in files:
            if f.endswith(suffix) and not f.endswith(".symtab.out"):
                p = os.path.join(d, f)
                if best is None or os.path.getmtime(p) > os.path.getmtime(best):
                    best = p
    return best


def resolve_unwindset(crate, h, t_start):
    p = _goto_binary(crate, h)
    if p is None or os.path.getmtime(p) < t_start - 1:
        return None, "no fresh goto binary for the harness (compile error?)"
    out = subprocess.run(["cbmc", "--show-loops", p], stdout=subprocess.PIPE, stderr=subprocess.DEVNULL).stdout.decode(errors="replace")
    loops = re.findall(r"^Loop (\S+):", out, re.M)
    entries, missing = [], []
    for pat, bound in h["unwindset"]:
        ids = [l for l in loops if re.search(pat, l)]
        if not ids:
            missing.append(pat)
        entries += ["%s:%d" % (l, bound) for l in ids]
    return entries, ("no loop matches %s (harmless if the code no longer has that loop)" % missing if missing else "")


def run_unwindset_harnesses(crate, hs, seed, timeout_s, jobs, tag):
    """Pre-pass (1 s per harness: only to make Kani emit the goto binaries), then one cargo kani per
    harness with its own --unwindset, run concurrently. Returns {name: (data, text)}."""
    import concurrent.futures
    t0 = time.time()
    run_kani(crate, hs, seed, 1, jobs, tag + "-pre")
    res = {}

    def one(ih):
        i, h = ih
        entries, note = resolve_unwindset(crate, h, t0)
        if entries is None:
            return h["name"], (None, note)
        extra = ["--cbmc-args", "--unwindset", ",".join(entries)] if entries else None
        data, text, rc, wall, lp = run_kani(crate, [h], seed, timeout_s, 1, "%s-u%d" % (tag, i), extra=extra)
        h["_unwindset_resolved"] = entries
        return h["name"], (data, text)

    with concurrent.futures.ThreadPoolExecutor(max_workers=max(1, jobs)) as ex:
        for name, r in ex.map(one, list(enumerate(hs))):
            res[name] = r
    return res


def classify(h, data, text):
    """Per-harness record from Kani's JSON."""
    name = h["name"]
    rec = {"harness": name, "crate": h["crate"], "bounds": h.get("bounds", ""), "desc": h.get("desc", ""),
           "status": "inconclusive", "reason": "", "checks": 0, "checks_failed": 0, "covers": 0,
           "covers_satisfied": 0, "solver_s": 0.0, "symex_s": 0.0, "vccs": 0, "failed": []}
    if data is None:
        rec["reason"] = "no JSON result (compiler error or crash); see log"
        return rec
    res = None
    for r in data.get("verification_results", {}).get("results", []):
        if r.get("harness_id") == name:
            res = r
    if res is None:
        rec["reason"] = "harness not found in results (not compiled / filter mismatch)"
        return rec
    for c in data.get("cbmc", []):
        if c.get("harness_id") == name:
            st = c.get("cbmc_stats") or {}
            rec["solver_s"] = float(st.get("runtime_solver_s") or 0.0)
            rec["symex_s"] = float(st.get("runtime_symex_s") or 0.0)
            rec["vccs"] = int(st.get("vccs_generated") or 0)
    checks = res.get("checks") or []
    covers = [c for c in checks if c.get("category") == "cover" or c.get("status") in ("Satisfied", "Unsatisfiable")]
    asserts = [c for c in checks if c not in covers]
    rec["checks"] = len(asserts)
    rec["covers"] = len(covers)
    rec["covers_satisfied"] = sum(1 for c in covers if c.get("status") == "Satisfied")
    failed = [c for c in asserts if c.get("status") in ("Failure", "Failed", "FAILURE")]
    undet = [c for c in asserts if c.get("status") in ("Undetermined", "Error", "SolverError")]
    rec["checks_failed"] = len(failed)
    rec["duration_ms"] = res.get("duration_ms")
    status = res.get("status")
    unwind_fail = [c for c in failed if c.get("category") == "unwind" or UNWIND_RE.search(c.get("description", ""))]
    real_fail = [c for c in failed if c not in unwind_fail]
    for c in real_fail:
        loc = c.get("location") or {}
        rec["failed"].append({"function": c.get("function"), "description": c.get("description"),
                              "category": c.get("category"),
                              "location": "%s:%s" % (loc.get("file"), loc.get("line"))})
    if real_fail:
        rec["status"] = "counterexample"
        if unwind_fail:
            rec["reason"] = "also: unwinding assertion failed (bound too small for some loop)"
        return rec
    if unwind_fail:
        rec["reason"] = "unwinding assertion failed: a loop can iterate more often than the stated bound"
        rec["unwind_fail"] = [c.get("description") for c in unwind_fail][:5]
        # an unwinding failure is a finding when the harness declares the bound a step budget
        if h.get("unwind_is_budget"):
            rec["status"] = "counterexample"
            for c in unwind_fail:
                loc = c.get("location") or {}
                rec["failed"].append({"function": c.get("function"), "description": c.get("description"),
                                      "category": "unwind", "location": "%s:%s" % (loc.get("file"), loc.get("line"))})
        return rec
    if status != "Success":
        rec["reason"] = "kani status %s (timeout / out of memory / solver error)" % status
        if undet:
            rec["reason"] += "; %d undetermined checks" % len(undet)
        return rec
    if rec["covers"] == 0:
        rec["reason"] = "harness has no cover! witness"
        return rec
    if rec["covers_satisfied"] != rec["covers"]:
        bad = [c.get("description") for c in covers if c.get("status") != "Satisfied"]
        rec["reason"] = "vacuity: cover not satisfied: %s" % bad[:3]
        return rec
    rec["status"] = "holds"
    return rec


# ---------------------------------------------------------------------------------------------
# counterexample replay

PLAYBACK_RE = re.compile(r"```\s*\n(.*?)```", re.S)


def _playback_env(seed, scratch, crate, profile):
    env = base_env(seed, scratch)
    env["CARGO_TARGET_DIR"] = os.path.join(WORK, "target-playback-%s-%s" % (crate, profile))
    if profile == "release":
        # cargo kani playback has no --release: give the dev profile the semantics users run
        env["CARGO_PROFILE_DEV_OPT_LEVEL"] = "3"
        env["CARGO_PROFILE_DEV_DEBUG_ASSERTIONS"] = "false"
        env["CARGO_PROFILE_DEV_OVERFLOW_CHECKS"] = "false"
    return env


def run_playback_tests(h, seed, tests, profiles=("dev", "release"), budget_s=900, extra_names=None):
    """Append the generated unit tests to a scratch copy of the harness file and run them natively."""
    scratch = os.path.join(WORK, "playback-%d" % os.getpid())
    if os.path.exists(scratch):
        shutil.rmtree(scratch)
    shutil.copytree(HARNESS_DIR, scratch)
    with open(os.path.join(scratch, h["file"]), "a") as f:
        for t in tests:
            f.write("\n// generated by Kani concrete playback\n" + t + "\n")
    names = [re.search(r"fn (kani_concrete_playback_\w+)", t).group(1) for t in tests] + list(extra_names or [])
    results = {}
    for profile in profiles:
        env = _playback_env(seed, scratch, h["crate"], profile)
        for tn in names:
            cmd = "ulimit -v %d; exec cargo kani playback -Z concrete-playback -- %s --exact --test-threads 1" % (
                8 * 1024 * 1024, h["name"].rsplit("::", 1)[0] + "::" + tn)
            try:
                p = subprocess.run(["bash", "-c", cmd], cwd=os.path.join(REPO, CRATE_DIR[h["crate"]]), env=env,
                                   stdout=subprocess.PIPE, stderr=subprocess.STDOUT, timeout=budget_s)
                out = p.stdout.decode(errors="replace")
            except subprocess.TimeoutExpired:
                results[profile + ":" + tn] = ("timeout", "native replay did not finish in %d s" % budget_s)
                continue
            ran = re.search(r"test \S*%s \.\.\. (\w+)" % re.escape(tn), out)
            if ran and ran.group(1) == "FAILED":
                pm = re.search(r"panicked at ([^\n]*\n[^\n]*)", out)
                where = pm.group(1) if pm else out[-800:]
                if "kani/src/concrete_playback.rs" in where:
                    # the recorded values do not fit the harness any more (its inputs changed since the
                    # replay was recorded): that is a stale replay file, not a reproduction
                    results[profile + ":" + tn] = ("error", "stale replay: recorded values do not match the current form of the harness (%s)" % where.replace("\n", " | ")[:200])
                    continue
                results[profile + ":" + tn] = ("panicked", where)
            elif ran and ran.group(1) == "ok":
                results[profile + ":" + tn] = ("passed", "")
            elif "memory allocation of" in out or "SIGABRT" in out or "SIGSEGV" in out or "stack overflow" in out:
                results[profile + ":" + tn] = ("aborted", out[-600:])
            else:
                results[profile + ":" + tn] = ("error", out[-1500:])
    shutil.rmtree(scratch, ignore_errors=True)
    return results


def concrete_playback(h, seed, timeout_s, profiles=("dev", "release")):
    """Ask Kani for concrete tests for the failing checks of a harness, then execute them natively
    (dev semantics = what Kani models, and release semantics = what users run).
    Returns (reproduced: bool|None, test_sources|None, detail)."""
    if h.get("native_grid") and h.get("grid_first"):
        # harnesses whose CBMC trace is known to be too large for a playback test in time
        results = run_playback_tests(h, seed, [], profiles=profiles, extra_names=[h["native_grid"]])
        repro = any(v[0] in ("panicked", "timeout", "aborted") for v in results.values())
        detail = {k: list(v) for k, v in results.items()}
        detail["note"] = ["native_grid", "replayed the harness body natively over its boundary grid (%s); no Kani playback attempted (trace over a 4 MiB array)" % h["native_grid"]]
        if all(v[0] == "error" for v in results.values()):
            return None, None, "native grid did not build/run: %s" % list(results.values())[0][1]
        return repro, ["// native grid test %s in %s" % (h["native_grid"], h["file"])], detail
    extra = ["-Z", "concrete-playback", "--concrete-playback=print"]
    if h.get("_unwindset_resolved"):
        extra += ["--cbmc-args", "--unwindset", ",".join(h["_unwindset_resolved"])]
    elif h.get("cbmc_args"):
        extra += ["--cbmc-args"] + h["cbmc_args"]
    data, text, rc, wall, lp = run_kani(h["crate"], [h], seed, timeout_s, 1, "pb", extra=extra, mem_kb=PB_MEM_LIMIT_KB)
    m = PLAYBACK_RE.findall(text)
    tests = [t for t in m if "kani_concrete_playback" in t and "Check for `cover`" not in t]
    fallback = False
    if not tests:
        # Kani only emits playback tests for failed *assertion* checks. A failure inside a std panic
        # path (e.g. raw_vec::capacity_overflow) gets none. Fall back to the tests Kani emits for the
        # harness's satisfied cover! witnesses (inputs that reach the code under test): if one of them
        # panics natively the failure is confirmed; if none does, the run stays inconclusive.
        tests = [t for t in m if "kani_concrete_playback" in t][:3]
        fallback = True
    if not tests and h.get("native_grid"):
        # Last resort for the heaviest harnesses (CBMC's full JSON trace of a document-level harness
        # exhausts memory): the harness file carries a native #[test] that runs the same body over a
        # small grid of boundary inputs. The solver's counterexample stands; the grid only has to
        # confirm natively that the failure is real. It reproduces or the run stays inconclusive.
        results = run_playback_tests(h, seed, [], profiles=profiles, extra_names=[h["native_grid"]])
        repro = any(v[0] in ("panicked", "timeout", "aborted") for v in results.values())
        detail = {k: list(v) for k, v in results.items()}
        detail["note"] = ["native_grid", "Kani could not emit a playback test (trace too large); replayed the harness body natively over its boundary grid (%s)" % h["native_grid"]]
        if all(v[0] == "error" for v in results.values()):
            return None, None, "native grid did not build/run: %s" % list(results.values())[0][1]
        return repro, ["// native grid test %s in %s" % (h["native_grid"], h["file"])], detail
    if not tests:
        return None, None, "kani produced no concrete playback test for a failed check (log %s)" % lp
    tests = tests[:2]
    results = run_playback_tests(h, seed, tests, profiles=profiles)
    repro = any(v[0] in ("panicked", "timeout", "aborted") for v in results.values())
    if all(v[0] == "error" for v in results.values()):
        return None, tests, "native replay did not build/run: %s" % list(results.values())[0][1]
    detail = {k: list(v) for k, v in results.items()}
    if fallback:
        detail["note"] = ["fallback", "no playback test for the failed check itself; replayed the harness's cover witnesses instead"]
    return repro, tests, detail


def load_known():
    p = os.path.join(VERIF, "known_findings.json")
    if not os.path.exists(p):
        return []
    return json.load(open(p)).get("findings", [])


def match_known(known, prop, rec_fail, hname):
    """A known finding is keyed by role: property, harness (glob), failing function (substring),
    check class (substring of description). Only status == 'known' suppresses."""
    for k in known:
        if k.get("status") != "known":
            continue
        if k.get("property") != prop:
            continue
        if not fnmatch.fnmatch(hname, k.get("harness", "*")):
            continue
        if k.get("failing_function", "") not in (rec_fail.get("function") or ""):
            continue
        if k.get("check_class", "") not in (rec_fail.get("description") or ""):
            continue
        return k
    return None


def write_evidence(prop, tier, seed, recs, wall, violations, extra_assumptions=None):
    p = registry.PROPS[prop]
    groups = sorted({h["group"] for h in registry.HARNESSES if prop in h["props"]})
    fns, stubs, assumptions = [], [], list(extra_assumptions or [])
    for g in groups:
        G = registry.GROUPS[g]
        fns += G.get("functions_encoded", [])
        stubs += G.get("stubs", [])
        assumptions += G.get("assumptions", [])
    holds = [r for r in recs if r["status"] == "holds"]
    ev = {
        "property_id": prop,
        "tier": tier,
        "seed": int(seed),
        "level": "model_checking",
        "coverage": {
            "evaluations": int(sum(r["checks"] for r in recs)),
            "distinct_nontrivial": len(holds),
            "rule": "evaluations = CBMC verification conditions (checks) discharged by the SAT solver over all harnesses of this "
                    "run; distinct_nontrivial = harnesses whose verdict is 'holds': every check SUCCESS incl. unwinding "
                    "assertions AND every kani::cover! witness (assertion site reached, accepting branch taken) SATISFIED. "
                    "Each harness quantifies over all values of its symbolic inputs within the stated bounds.",
            "samples": recs,
            "exhaustive": False,
            "functions_encoded": sorted(set(fns)),
            "harness_groups": groups,
            "queries": int(sum(r["checks"] + r["covers"] for r in recs)),
            "vccs_generated": int(sum(r["vccs"] for r in recs)),
            "solver_time_s": round(sum(r["solver_s"] for r in recs), 3),
            "symex_time_s": round(sum(r["symex_s"] for r in recs), 3),
            "stubs": sorted(set(stubs)),
            "decided": p.get("decided", ""),
            "outside_claim": p.get("outside", []),
            "engine": "Kani 0.68.0 -> CBMC 6.11.0 -> CaDiCaL (encoding regenerated from /repo's working tree on this run)",
            "inconclusive": [r["harness"] for r in recs if r["status"] == "inconclusive"],
            "counterexamples": [r["harness"] for r in recs if r["status"] in ("counterexample", "counterexample-not-replayed")],
        },
        "assumptions": sorted(set(assumptions)) + [
            "bounded: a pass holds for all inputs within each harness's stated bound (unwinding assertions on), nothing beyond",
            "Kani models the dev profile (overflow checks on) and an allocator that never fails",
        ],
        "wall_s": round(wall, 2),
        "violations": int(violations),
    }
    os.makedirs(EVIDENCE_DIR, exist_ok=True)
    with open(os.path.join(EVIDENCE_DIR, prop + ".json"), "w") as f:
        json.dump(ev, f, indent=1)


def check_property(prop, tier, seed, only=None, jobs=None):
    t0 = time.time()
    if prop not in registry.PROPS:
        log("property %s is not claimed (see MANIFEST.json not_applicable)" % prop)
        return 2
    problems = preflight()
    if problems:
        for p in problems:
            log("PREFLIGHT: " + p)
        log("INCONCLUSIVE property=%s reason=hooks-missing" % prop)
        return 2
    hs = select(prop, tier)
    if only:
        hs = [h for h in hs if fnmatch.fnmatch(h["name"], "*" + only + "*")]
    if not hs:
        log("no harnesses selected")
        return 2
    known = load_known()
    recs = []
    jobs = jobs or int(os.environ.get("VERIF_JOBS", "8"))
    # batch: one invocation per (crate, batch key); harnesses with their own cbmc args run alone
    batches = {}
    uw = {}
    for h in hs:
        if h.get("unwindset"):
            uw.setdefault(h["crate"], []).append(h)
            continue
        key = (h["crate"], h.get("batch", "") if not h.get("cbmc_args") else h["name"])
        batches.setdefault(key, []).append(h)
    for crate, group in sorted(uw.items()):
        to = max(h.get("timeout", registry.TIER_TIMEOUT[tier]) for h in group)
        log("== kani %s: %d harness(es) with per-loop unwind bounds, timeout %ds each, %d at a time" % (crate, len(group), to, jobs))
        res = run_unwindset_harnesses(crate, group, seed, to, jobs, "%s-%s" % (prop, tier))
        for h in group:
            data, text = res[h["name"]]
            rec = classify(h, data, text if isinstance(text, str) else "")
            if data is None and isinstance(text, str) and not rec["reason"].startswith("harness"):
                rec["reason"] = (rec["reason"] + "; " + text[-300:]) if len(text) < 400 else rec["reason"]
            rec["unwindset"] = h.get("_unwindset_resolved", [])
            recs.append(rec)
            log("   %-14s %s  checks=%d covers=%d/%d solver=%.1fs %s" % (
                rec["status"].upper(), h["name"], rec["checks"], rec["covers_satisfied"], rec["covers"],
                rec["solver_s"], rec["reason"]))
    for (crate, bkey), group in sorted(batches.items()):
        to = max(h.get("timeout", registry.TIER_TIMEOUT[tier]) for h in group)
        extra = None
        if group[0].get("cbmc_args"):
            extra = ["--cbmc-args"] + group[0]["cbmc_args"]
        log("== kani %s: %d harness(es), timeout %ds each, -j %d" % (crate, len(group), to, jobs))
        data, text, rc, wall, lp = run_kani(crate, group, seed, to, jobs, "%s-%s" % (prop, tier), extra=extra)
        if data is None:
            tail = "\n".join(text.splitlines()[-25:])
            log("   kani produced no result JSON (rc=%s). Log tail:\n%s" % (rc, tail))
        for h in group:
            rec = classify(h, data, text)
            recs.append(rec)
            log("   %-14s %s  checks=%d covers=%d/%d solver=%.1fs %s" % (
                rec["status"].upper(), h["name"], rec["checks"], rec["covers_satisfied"], rec["covers"],
                rec["solver_s"], rec["reason"]))
    # triage counterexamples
    violations = 0
    inconclusive = [r for r in recs if r["status"] == "inconclusive"]
    # Replays are the slow part (a Kani re-run for the concrete values plus two native builds), so at
    # most MAX_REPLAY counterexamples per run are replayed, cheapest first; the release-profile replay is
    # done for the first reproduced one only. The rest are listed in the evidence as not replayed and do
    # not get a VIOLATION line of their own (the run already exits 1).
    max_replay = int(os.environ.get("VERIF_MAX_REPLAY", "2"))
    reproduced = 0
    for rec in sorted(recs, key=lambda r: r["solver_s"] + r["symex_s"]):
        if rec["status"] != "counterexample":
            continue
        h = [x for x in hs if x["name"] == rec["harness"]][0]
        unknown = []
        for fl in rec["failed"]:
            k = match_known(known, prop, fl, rec["harness"])
            if k:
                fl["known_finding"] = k.get("id")
                log("KNOWN-FINDING: property=%s %s" % (prop, k.get("what", k.get("id"))))
            else:
                unknown.append(fl)
        if not unknown:
            rec["status"] = "holds-except-known-findings"
            continue
        for fl in unknown:
            log("   counterexample in %s: %s [%s] at %s" % (rec["harness"], fl["description"], fl["function"], fl["location"]))
        if reproduced >= max_replay:
            rec["status"] = "counterexample-not-replayed"
            rec["reason"] = "replay cap reached (%d reproduced counterexamples already reported in this run)" % reproduced
            continue
        repro, test_src, detail = concrete_playback(h, seed, h.get("timeout", registry.TIER_TIMEOUT[tier]),
                                                    profiles=("dev", "release") if reproduced == 0 else ("dev",))
        rdir = os.path.join(REPLAY_DIR, prop)
        os.makedirs(rdir, exist_ok=True)
        rpath = os.path.join(rdir, rec["harness"].replace("::", "__") + ".json")
        with open(rpath, "w") as f:
            json.dump({"property": prop, "harness": rec["harness"], "crate": h["crate"], "file": h["file"],
                       "failed_checks": unknown, "playback_test": test_src, "native_replay": detail,
                       "seed": int(seed)}, f, indent=1)
        rec["replay"] = rpath
        rec["native_replay"] = detail if not isinstance(detail, str) else {"note": detail}
        if repro:
            violations += 1
            reproduced += 1
            log("VIOLATION property=%s replay=%s" % (prop, rpath))
        else:
            rec["status"] = "inconclusive"
            rec["reason"] = "counterexample did not reproduce natively (encoding/stub issue?): %s" % (detail,)
            inconclusive.append(rec)
            log("   counterexample of %s did NOT reproduce natively -> inconclusive: %s" % (rec["harness"], detail))
    wall = time.time() - t0
    write_evidence(prop, tier, seed, recs, wall, violations)
    nh = sum(1 for r in recs if r["status"] == "holds")
    log("property=%s tier=%s harnesses=%d holds=%d inconclusive=%d violations=%d wall=%.0fs" % (
        prop, tier, len(recs), nh, len(inconclusive), violations, wall))
    if violations:
        return 1
    if inconclusive:
        for r in inconclusive:
            log("INCONCLUSIVE property=%s harness=%s reason=%s" % (prop, r["harness"], r["reason"]))
        return 2
    return 0


def replay(prop, path, seed):
    """Re-run a stored replay: execute the stored concrete playback tests natively against /repo."""
    d = json.load(open(path))
    h = [x for x in registry.HARNESSES if x["name"] == d["harness"]]
    if not h:
        log("unknown harness " + d["harness"])
        return 2
    h = h[0]
    tests = d.get("playback_test")
    if not tests:
        log("replay file has no concrete test")
        return 2
    if isinstance(tests, str):
        tests = [tests]
    # a replay recorded through the native grid names a #[test] of the harness file instead of
    # carrying a generated playback test
    grid = [re.search(r"native grid test (\w+)", t).group(1) for t in tests if t.startswith("// native grid test")]
    tests = [t for t in tests if not t.startswith("// native grid test")]
    results = run_playback_tests(h, d.get("seed", seed), tests, extra_names=grid)
    for k, v in results.items():
        log("   %s: %s %s" % (k, v[0], v[1][:300].replace("\n", " | ")))
    if any(v[0] in ("panicked", "timeout", "aborted") for v in results.values()):
        log("VIOLATION property=%s replay=%s" % (prop, path))
        return 1
    if all(v[0] == "passed" for v in results.values()):
        log("replay passes on this tree")
        return 0
    return 2


def setup():
    os.makedirs(WORK, exist_ok=True)
    rc = 0
    for crate, hname in registry.SETUP_HARNESS.items():
        h = [x for x in registry.HARNESSES if x["name"] == hname][0]
        data, text, r, wall, lp = run_kani(crate, [h], 0, 600, 2, "setup")
        rec = classify(h, data, text)
        log("setup %s: %s (%.0fs)" % (crate, rec["status"], wall))
        if rec["status"] != "holds":
            log("\n".join(text.splitlines()[-30:]))
            rc = 1
    return rc
