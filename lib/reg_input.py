group("G-INPUT", "automerge", "am_storage_parse.rs", "storage::parse",
      ["storage::parse::Input::{new,take_1,take_4,take_n,rest,range_of,truncate,skip,split,reset,is_empty,unconsumed_bytes,bytes}",
       "storage::parse::{take1,take4,take_n,range_of,length_prefixed,length_prefixed_bytes,apply_n,actor_id,change_hash}"],
      stubs=["<ActorId as From<&[u8]>>::from -> ActorId of the same length with arbitrary content (input_length_prefixed_actor_ids_budget only): over-approximation of the TinyVec copy"],
      assumptions=["pre-state = any Input satisfying the representation invariant (bytes is the suffix of original at position) over a 6-byte buffer; "
                   "Input::skip's result is only used after reset(), as every caller does"])
H("G-INPUT", "input_take_steps", "C13 C15 C17", "any valid Input over a 6-byte buffer; take_n length any usize; unwind 8",
  "take1/take4/take_n/rest/range_of: exact bytes, exact advance, exact shortfall, no read outside, length compared not allocated")
H("G-INPUT", "input_split_then_reset", "C12 C13", "any valid Input over a 6-byte buffer, any usize split length",
  "first = next min(len, avail) bytes; remaining.reset() = exactly what follows; truncate keeps validity")
H("G-INPUT", "input_length_prefixed_bytes", "C15 C17", "every 6-byte input; unwind 12", "Ok only if the announced bytes are present; returns exactly them")
H("G-INPUT", "input_length_prefixed_actor_ids_budget", "C17 C15", "every 5-byte input, element count any u64 from the wire; unwind 18 (17 for TinyVec's 16-slot default loop; the element loop itself is asserted <= 4 elements)",
  "<= n+1 iterations, <= 4 elements, no allocation from the count", unwind_is_budget=True, tier="thorough")
H("G-INPUT", "input_length_prefixed_hashes_budget", "C17 C15", "every 40-byte input, element count any u64; unwind 12", "<= 1 hash parsed; stops at first shortfall", unwind_is_budget=True)
H("G-INPUT", "input_apply_n_budget", "C17", "every 4-byte input, any usize n; unwind 8", "apply_n stops at the first failing element", unwind_is_budget=True)
for _n in ("max", "2p63"):
    H("G-INPUT", "input_length_prefixed_huge_count_%s" % _n, "C17 C15 C14", "CONCRETE input: count prefix u64::MAX resp. 2^63 (10-byte varint) + 35 zero bytes; unwind 13 = budget",
      "fails with not-enough-input; nothing is sized from the count (replayable witness for the any-count budget harness)", unwind_is_budget=True)
for _n in ("max", "2p62"):
    H("G-INPUT", "input_apply_n_huge_count_%s" % _n, "C17 C15", "CONCRETE input: n = usize::MAX resp. 2^62, 4 bytes, 4-byte elements; unwind 8 = budget",
      "fails at the second element; nothing sized from n", unwind_is_budget=True)
