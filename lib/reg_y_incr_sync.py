# G-INCR (C02) and the flags part of G-SYNCENC (C22, C19). exec'd by registry.py with group, H, PROPS in scope.
group("G-INCR", "automerge", "am_op_set2_change_batch.rs", "op_set2::change::batch",
      ["op_set2::change::batch::normalize_increment_successors", "types::OpId::new",
       "the `deleted |= inc.is_none()` fold of process_pred (restated in the harness over the normalised successors)"])
H("G-INCR", "incr_successors_normalized_3", "C02", "3 successors, all u32 x u32 ids, all Option<i64> amounts, counter / non-counter predecessor; unwind 5",
  "increment keeps a counter predecessor (amount preserved), overwrites any other value; ids and order untouched")
H("G-INCR", "incr_successors_prefix_only", "C02", "successor list of length 0..=3 inside a 3-entry buffer; unwind 5",
  "only the listed successors are rewritten; an empty list deletes nothing")

group("G-SYNCENC", "automerge", "am_sync.rs", "sync",
      ["sync::MessageFlags::{new,set,contains,encode,parse_bytes}", "sync::Message::encode", "sync::{encode_hashes,encode_many}", "sync::MessageVersion::encode", "storage::parse::{length_prefixed_bytes,leb128_u64,take_n,Input::new}",
       "leb128::write::unsigned (dependency, executed from source)"])
H("G-SYNCENC", "flags_encode_parse_roundtrip", "C22 C19", "every subset of the 7 flag bits; unwind 6",
  "encode = [2, 0x02, 0x80|bits]; the section read as Message::parse reads it gives back exactly the flags; READ_ONLY / SYNC_RESET / SUPPORTS_SYNC_RESET independent")
H("G-SYNCENC", "flags_parse_any_section_len3", "C22 C15", "EVERY 3-byte flags section; unwind 6",
  "parse_bytes total; result = union of the low 7 bits of marker bytes; legacy bytes set nothing")
H("G-SYNCENC", "message_encode_framing_1head", "C19", "any version byte, any 256-bit head, flags absent or any subset of the 7 bits; no need/have/changes; unwind 34",
  "Message::encode = [type, 1, head, 0, 0, 0] + flags section iff flags present (compared byte by byte at an arbitrary index)")
H("G-SYNCENC", "message_encode_framing_need_and_chunk", "C19", "any version byte, any 256-bit needed hash, one change chunk of any 2 bytes; no heads/have/flags; unwind 34",
  "Message::encode = [type, 0, 1, need, 0, 1, 2, c0, c1] (compared byte by byte at an arbitrary index)", tier="thorough")

group("G-SYNCSTATE", "automerge", "am_sync_state.rs", "sync::state",
      ["sync::state::State::{new,new_read_only,encode,decode,parse,set_read_only,peer_supports_sync_reset,supports_v2_messages,send_doc}",
       "sync::{encode_hashes,encode_many}", "storage::parse::{take1,length_prefixed,change_hash,take_n,leb128_u64}"],
      assumptions=["pre-state shape: 1 shared head, 1 last-sent head, peer heads/need/have/capabilities each present or absent, 0 or 1 sent hash; "
                   "all boolean session fields arbitrary; hash values fixed except in state_persist_roundtrip_h1 (any 256-bit head)"])
H("G-SYNCSTATE", "state_set_read_only_table", "C22", "any state of the stated shape (hash values fixed, distinct), any target mode; unwind 4",
  "same mode = no-op; ro->rw = fresh session + needs_reset, capabilities kept; rw->ro = flag + re-armed message only")
H("G-SYNCSTATE", "state_constructors", "C22 C21", "no input", "new / new_read_only differ in read_only only; nothing pending")
H("G-SYNCSTATE", "state_persist_roundtrip_h0", "C21 C19", "no shared heads, any session fields of the stated shape; unwind 4",
  "decode(encode(s)) = fresh session with the same shared heads; no in_flight, no sent_hashes")
H("G-SYNCSTATE", "state_persist_roundtrip_h1", "C21 C19", "one shared head of ANY 256-bit value, any boolean session fields; unwind 4 (hash compared at an arbitrary index)",
  "as above; the head is restored bit for bit")
H("G-SYNCSTATE", "state_decode_total_len3", "C21 C15 C17", "EVERY input of 2 or 3 bytes; unwind 12",
  "total; accepts exactly type byte 0x43 + count 0; a count without its hashes is NotEnoughInput", unwind_is_budget=True)
H("G-SYNCSTATE", "state_capability_predicates", "C22 C20 C21", "every capability list of length 0..=2 or absent; peer heads absent / empty / one; unwind 4",
  "peer_supports_sync_reset <=> SyncReset listed; supports_v2_messages <=> MessageV2 listed; send_doc <=> peer heads empty and V2")
