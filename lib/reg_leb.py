group("G-LEB", "automerge", "am_storage_parse_leb128.rs", "storage::parse::leb128",
      ["storage::parse::leb128::{leb128_u64,leb128_i64,leb128_u32,nonzero_leb128_u64}", "storage::parse::{take1,Input::take_1}",
       "columnar::encoding::leb128::{ulebsize,lebsize}", "leb128::write::{unsigned,signed} (the writer the repository uses)"])
H("G-LEB", "leb_u64_roundtrip_all_values", "C18 C15", "every u64; unwind 12 (LEB128 of a u64 is <= 10 bytes: proved by the unwinding assertion)",
  "parse(encode(v)) = v, consumes everything; repository writer = reference encoder; ulebsize = encoded length")
H("G-LEB", "leb_i64_roundtrip_all_values", "C18 C15", "every i64; unwind 12", "same for the signed variant and lebsize")
for n, t in ((2, "quick"), (3, "quick"), (9, "thorough"), (10, "quick"), (11, "quick")):
    H("G-LEB", "leb_u64_total_len%d" % n, "C15 C17 C18", "every %d-byte input; unwind 12" % n,
      "total; accepted => canonical shortest encoding, <= 10 bytes consumed; Incomplete only if all bytes continue", tier=t, unwind_is_budget=True)
for n, t in ((2, "quick"), (3, "thorough"), (10, "quick"), (11, "quick")):
    H("G-LEB", "leb_i64_total_len%d" % n, "C15 C17 C18", "every %d-byte input; unwind 12" % n,
      "total; accepted => canonical encoding (no overlong sign extension), <= 10 bytes consumed", tier=t, unwind_is_budget=True)
H("G-LEB", "leb_u32_and_nonzero_variants", "C15 C18", "every 6-byte input; unwind 12", "u32 variant accepts exactly values < 2^32; nonzero variant rejects exactly 0")
